"""C19 A fit output file cut short by a crash never yields a wrong record."""
import ast

from ..astutil import up, chain, calls, is_call_to, walk_local, paths, root_name, stores
from ..rules import where, path_actions
from ..loader import AnalysisError

EXPLANATION = (
    "Decides the structural half of C19 on FitInfoFile: (CFG-3a) every record is written by exactly one "
    "pickle.dump of the whole FitInfo object on every non-raising path of write(), and read by exactly one "
    "pickle.load per iteration of __iter__; (CFG-3b) a yield occurs only after that load succeeded on the same "
    "path, never inside or after an exception handler, and yields the loaded object itself with nothing but "
    "its .meta attached; (CFG-3d) handler paths end the iteration (return/raise), they never fall through to a "
    "yield; (AGREE-8) writer and reader use the same binary handle. Together with the library fact that a "
    "proper prefix of a pickle frame never unpickles (no STOP opcode), these make a truncated file produce an "
    "error or an exact prefix. Decided from the source for every path; not from runs.")
NOT_DECIDED = ["that a proper prefix of a pickle never loads successfully (pickle library fact)",
               "byte-level fidelity of pickled numpy/astropy objects"]
ASSUMPTIONS = ["pickle frames are self-delimiting and atomic (a truncated frame raises EOFError/UnpicklingError)",
               "loops are walked for one generic iteration; the loop body is the same for every record"]
TRUSTED = ["python ast", "pickle framing"]
MIN = {'CFG-3a': 4, 'CFG-3d': 1, 'AGREE-8': 4}


def _is_load(c):
    return is_call_to(c, 'pickle.load', 'load') and (chain(c.func) or '').split('.')[-1] == 'load'


def _is_dump(c):
    return (chain(c.func) or '').split('.')[-1] == 'dump' and is_call_to(c, 'pickle.dump', 'dump')


def run(ctx):
    """decided by interpreting FitInfoFile on a stream of pickles cut at every position (recfile.py); the path rules below know one way of writing the
    class and run only when the interpretation does not reach a verdict - then they may only say undecided"""
    from .. import recfile, roundtrip
    d1 = recfile.check_write_read(ctx, 'CFG-3a', 'AGREE-8')
    d2 = recfile.check_truncation(ctx, 'CFG-3')
    if d1 and d2:
        return
    try:
        syntactic_rules(roundtrip.SuspectCtx(ctx, 'the file protocol was not decided by interpretation and the path rule, which knows one spelling only, reports'))
    except AnalysisError as e:
        ctx.undecided('CFG-3a', 'syntactic fall-back', 'sedfitter/fit_info.py', 'structure not recognised: %s' % e)


def syntactic_rules(ctx):
    repo = ctx.repo
    FIF = repo.cls('fit_info', 'FitInfoFile')
    write = ctx.fn(repo.func('fit_info', 'FitInfoFile.write'))
    it = ctx.fn(repo.func('fit_info', 'FitInfoFile.__iter__'))
    init = ctx.fn(repo.func('fit_info', 'FitInfoFile.__init__'))

    # ---- CFG-3a writer: exactly one whole-record dump on every non-raising path
    rec = write.params[1]
    n_paths = 0
    handles = set()
    for p in paths(write.node.body):
        if p.exit == 'raise':
            continue
        n_paths += 1
        acts = path_actions(p)
        dumps = [a[1] for a in acts if a[0] == 'call' and _is_dump(a[1])]
        whole = [d for d in dumps if d.args and isinstance(d.args[0], ast.Name) and d.args[0].id == rec]
        other = [d for d in dumps if d not in whole]
        for d in dumps:
            if len(d.args) > 1:
                handles.add(up(d.args[1]))
        bad_other = [d for d in other if not (d.args and root_name(d.args[0]) == rec and '.meta' in up(d.args[0]))]
        inst = 'write path #%d' % n_paths
        if len(whole) != 1:
            ctx.violation('CFG-3a', inst, where(write), 'path {%s} dumps the whole record %d times (must be exactly once)'
                          % (p.describe()[:200], len(whole)), 'record-dump-count')
        elif bad_other:
            ctx.violation('CFG-3a', inst, where(write, bad_other[0]),
                          'a record is written in pieces: extra dump of %s' % up(bad_other[0].args[0]), 'piecewise-dump')
        else:
            # the record dump must be the last dump on the path (metadata first)
            ctx.expect(dumps[-1] is whole[0], 'CFG-3a', inst, where(write, whole[0]),
                       'one pickle.dump(%s, ...) per record, after %d metadata dumps' % (rec, len(other)),
                       'metadata is dumped after the record', 'dump-order')
    ctx.analysed['paths'] += n_paths
    if n_paths == 0:
        raise AnalysisError('FitInfoFile.write has no non-raising path')

    # ---- reader
    file_branch_paths = []
    allp = paths(it.node.body)
    ctx.analysed['paths'] += len(allp)
    yields_total = 0
    n_r = 0
    load_handles = set()
    for p in allp:
        acts = path_actions(p)
        loads = [(i, a[1]) for i, a in enumerate(acts) if a[0] == 'call' and _is_load(a[1])]
        ylds = [(i, a[1]) for i, a in enumerate(acts) if a[0] == 'yield']
        exc = [i for i, a in enumerate(acts) if a[0] == 'except']
        in_file_mode = bool(loads) or bool(exc)
        if not in_file_mode:
            continue
        n_r += 1
        for _, l in loads:
            if l.args:
                load_handles.add(up(l.args[0]))
        inst = 'read path #%d' % n_r
        if len(loads) > 1:
            ctx.violation('CFG-3a', inst, where(it, loads[1][1]), 'one iteration performs %d pickle.load calls: a record is assembled from several loads' % len(loads), 'multi-load')
        else:
            ctx.ok('CFG-3a', inst, where(it), '%d pickle.load on path {%s}' % (len(loads), p.describe()[:160]))
        for yi, y in ylds:
            yields_total += 1
            yinst = 'yield on read path #%d' % n_r
            if any(e < yi for e in exc):
                ctx.violation('CFG-3b', yinst, where(it, y), 'a record is yielded on a path that went through an exception handler: {%s}' % p.describe()[:300], 'yield-after-handler')
                continue
            if not isinstance(y, ast.Yield) or not isinstance(y.value, ast.Name):
                ctx.violation('CFG-3b', yinst, where(it, y), 'yields %s, not the object returned by pickle.load' % up(y), 'yield-not-loaded-object')
                continue
            nm = y.value.id
            src = None
            for j in range(yi - 1, -1, -1):
                a = acts[j]
                if a[0] == 'store' and isinstance(a[1], ast.Name) and a[1].id == nm:
                    src = (j, a)
                    break
            if src is None or not (isinstance(src[1][2], ast.Call) and _is_load(src[1][2])):
                ctx.violation('CFG-3b', yinst, where(it, y), 'yielded name %s is not bound by pickle.load on this path (bound by: %s)' % (nm, up(src[1][2]) if src else 'nothing'), 'yield-not-loaded-object')
                continue
            # stores into the loaded object between load and yield: only .meta
            bad = []
            for a in acts[src[0] + 1:yi]:
                if a[0] == 'store' and root_name(a[1]) == nm and not (isinstance(a[1], ast.Attribute) and a[1].attr == 'meta' and isinstance(a[1].value, ast.Name)):
                    bad.append(up(a[3]))
                if a[0] == 'call' and (chain(a[1].func) or '').startswith(nm + '.'):
                    bad.append(up(a[1]))
            if bad:
                ctx.violation('CFG-3b', yinst, where(it, y), 'the loaded record is modified before it is yielded: %s' % '; '.join(bad), 'modified-before-yield')
            else:
                ctx.ok('CFG-3b', yinst, where(it, y), 'yields the object bound by pickle.load on the same path; only .meta attached')
        # CFG-3d handler paths
        if exc:
            hinst = 'handler path #%d' % n_r
            if p.exit in ('return', 'raise'):
                ctx.ok('CFG-3d', hinst, where(it), 'handler path ends with %s' % p.exit)
            elif p.exit == 'backedge' and not ylds:
                ctx.ok('CFG-3d', hinst, where(it), 'handler path loops back without yielding')
            elif ylds and all(yi < exc[0] for yi, _ in ylds):
                ctx.ok('CFG-3d', hinst, where(it), 'handler entered after the yield')
            elif not ylds and p.exit is None:
                ctx.ok('CFG-3d', hinst, where(it), 'handler path leaves the loop without yielding')
            else:
                ctx.violation('CFG-3d', hinst, where(it), 'a handler path continues to a yield: {%s}' % p.describe()[:300], 'handler-falls-through')
    if n_r == 0 or yields_total == 0:
        raise AnalysisError('FitInfoFile.__iter__: file-mode read paths not found (loads=%d yields=%d)' % (n_r, yields_total))
    # no yield lexically inside a handler (independent of path modelling)
    for n in walk_local(it.node):
        if isinstance(n, ast.ExceptHandler):
            for m in walk_local(n):
                if isinstance(m, (ast.Yield, ast.YieldFrom)):
                    ctx.violation('CFG-3b', 'yield inside handler', where(it, m), 'yield inside an except block', 'yield-in-handler')

    # ---- AGREE-8 same binary handle for writer and reader
    opens = [c for c in calls(init.node) if chain(c.func) == 'open']
    modes = [up(c.args[1]) if len(c.args) > 1 else up(c.keywords[0].value) if c.keywords else '' for c in opens]
    if not opens:
        raise AnalysisError('FitInfoFile.__init__ opens no file')
    ctx.expect(all("'b'" in m or 'b"' in m for m in modes), 'AGREE-8', 'binary mode', where(init, opens[0]),
               'file opened with mode %s' % modes, 'file not opened in binary mode: %s' % modes, 'text-mode')
    ctx.expect(len(handles) == 1 and handles == load_handles, 'AGREE-8', 'same handle', where(write),
               'dump and load use %s' % sorted(handles), 'dump handles %s vs load handles %s' % (sorted(handles), sorted(load_handles)), 'handle-mismatch')


FI = 'sedfitter/fit_info.py'
MUST_FIRE = [
    ('yield inside the handler', [(FI, "                except EOFError:\n                    return\n", "                except EOFError:\n                    yield info\n                    return\n")]),
    ('handler yields a default FitInfo', [(FI, "                except EOFError:\n                    return\n", "                except EOFError:\n                    yield FitInfo()\n                    return\n")]),
    ('handler falls through to the yield', [(FI, "                except EOFError:\n                    return\n                else:\n                    info.meta = self._first_meta\n                    yield info",
                                              "                except EOFError:\n                    pass\n                info.meta = self._first_meta\n                yield info")]),
    ('record written as two dumps', [(FI, "        pickle.dump(info, self._handle, 2)\n\n    def close", "        pickle.dump(info.source, self._handle, 2)\n        pickle.dump(info, self._handle, 2)\n\n    def close")]),
    ('record assembled from two loads', [(FI, "                    info = pickle.load(self._handle)\n", "                    info = pickle.load(self._handle)\n                    info.source = pickle.load(self._handle)\n")]),
    ('record modified before being yielded', [(FI, "                    info.meta = self._first_meta\n                    yield info", "                    info.meta = self._first_meta\n                    info.chi2 = info.chi2[:1]\n                    yield info")]),
    ('yields a copy of part of the record', [(FI, "                    info.meta = self._first_meta\n                    yield info", "                    info.meta = self._first_meta\n                    yield info.source")]),
    ('text mode', [(FI, "self._handle = open(fits, mode + 'b')", "self._handle = open(fits, mode)")]),
    ('metadata dumped after the record', [(FI, "        if self._first_meta is None:\n            pickle.dump(info.meta.model_dir, self._handle, 2)", "        pickle.dump(info, self._handle, 2)\n        if self._first_meta is None:\n            pickle.dump(info.meta.model_dir, self._handle, 2)"),
                                           (FI, "        pickle.dump(info, self._handle, 2)\n\n    def close", "\n    def close")]),
    ('record dumped only for the first source', [(FI, "            self._first_meta = info.meta\n        else:", "            self._first_meta = info.meta\n            pickle.dump(info, self._handle, 2)\n            return\n        else:"),
                                                 (FI, "        pickle.dump(info, self._handle, 2)\n\n    def close", "\n    def close")]),
    ('large records written in pieces that the reader joins up to the next record or the end of the file', [(FI, '        pickle.dump(info, self._handle, 2)\n\n    def close', '        if info.chi2 is None or len(info.chi2) <= 50000:\n            pieces = [info]\n        else:\n            pieces = []\n            for start in range(0, len(info.chi2), 50000):\n                piece = copy(info)\n                piece.meta = info.meta\n                piece.av = info.av[start:start + 50000]\n                piece.sc = info.sc[start:start + 50000]\n                piece.chi2 = info.chi2[start:start + 50000]\n                piece.model_id = info.model_id[start:start + 50000]\n                piece.model_name = info.model_name[start:start + 50000]\n                if info.model_fluxes is not None:\n                    piece.model_fluxes = info.model_fluxes[start:start + 50000]\n                pieces.append(piece)\n        for piece in pieces[1:]:\n            piece.source = None\n        for piece in pieces:\n            pickle.dump(piece, self._handle, 2)\n\n    def close'), (FI, '            while True:\n                try:\n                    info = pickle.load(self._handle)\n                except EOFError:\n                    return\n                else:\n                    info.meta = self._first_meta\n                    yield info\n        else:', '            pieces = []\n            while True:\n                try:\n                    item = pickle.load(self._handle)\n                except EOFError:\n                    break\n                if item.source is None and len(pieces) > 0:\n                    pieces.append(item)\n                    continue\n                if len(pieces) > 0:\n                    info = self._join(pieces)\n                    info.meta = self._first_meta\n                    yield info\n                pieces = [item]\n            if len(pieces) > 0:\n                info = self._join(pieces)\n                info.meta = self._first_meta\n                yield info\n        else:'), (FI, "    def close(self):", '    @staticmethod\n    def _join(pieces):\n        info = pieces[0]\n        if len(pieces) > 1:\n            info.av = np.concatenate([p.av for p in pieces])\n            info.sc = np.concatenate([p.sc for p in pieces])\n            info.chi2 = np.concatenate([p.chi2 for p in pieces])\n            info.model_id = np.concatenate([p.model_id for p in pieces])\n            info.model_name = np.concatenate([p.model_name for p in pieces])\n            if info.model_fluxes is not None:\n                info.model_fluxes = np.concatenate([p.model_fluxes for p in pieces])\n        return info\n\n    def close(self):')]),
    ('one Pickler for the whole file: an object written again is stored as a reference to its first copy', [(FI, "self._handle = open(fits, mode + 'b')", "self._handle = open(fits, mode + 'b')\n            self._pickler = None"), (FI, '        pickle.dump(info, self._handle, 2)\n\n    def close', '        if self._pickler is None:\n            self._pickler = pickle.Pickler(self._handle, 2)\n        self._pickler.dump(info)\n\n    def close')]),
    ('__setstate__ re-sorts records whose chi2 is not in increasing order', [(FI, "        self.model_fluxes = d['model_fluxes']\n", "        self.model_fluxes = d['model_fluxes']\n        if self.chi2 is not None and np.any(self.chi2[1:] < self.chi2[:-1]):\n            self.sort()\n")]),
]
MUST_SILENT = [
    ('one Pickler for the whole file, its memo cleared after every record', [(FI, "self._handle = open(fits, mode + 'b')", "self._handle = open(fits, mode + 'b')\n            self._pickler = None"), (FI, '        pickle.dump(info, self._handle, 2)\n\n    def close', '        if self._pickler is None:\n            self._pickler = pickle.Pickler(self._handle, 2)\n        self._pickler.dump(info)\n        self._pickler.clear_memo()\n\n    def close')]),
    ('large records written in counted pieces, handed out only when every piece was read', [(FI, '        pickle.dump(info, self._handle, 2)\n\n    def close', '        if info.chi2 is None or len(info.chi2) <= 50000:\n            pieces = [info]\n        else:\n            pieces = []\n            for start in range(0, len(info.chi2), 50000):\n                piece = copy(info)\n                piece.meta = info.meta\n                piece.av = info.av[start:start + 50000]\n                piece.sc = info.sc[start:start + 50000]\n                piece.chi2 = info.chi2[start:start + 50000]\n                piece.model_id = info.model_id[start:start + 50000]\n                piece.model_name = info.model_name[start:start + 50000]\n                if info.model_fluxes is not None:\n                    piece.model_fluxes = info.model_fluxes[start:start + 50000]\n                pieces.append(piece)\n        pickle.dump(len(pieces), self._handle, 2)\n        for piece in pieces:\n            pickle.dump(piece, self._handle, 2)\n\n    def close'), (FI, '                try:\n                    info = pickle.load(self._handle)\n                except EOFError:\n                    return\n                else:\n                    info.meta = self._first_meta\n                    yield info', '                try:\n                    n = pickle.load(self._handle)\n                    pieces = [pickle.load(self._handle) for k in range(n)]\n                except EOFError:\n                    return\n                else:\n                    info = pieces[0]\n                    if len(pieces) > 1:\n                        info.av = np.concatenate([p.av for p in pieces])\n                        info.sc = np.concatenate([p.sc for p in pieces])\n                        info.chi2 = np.concatenate([p.chi2 for p in pieces])\n                        info.model_id = np.concatenate([p.model_id for p in pieces])\n                        info.model_name = np.concatenate([p.model_name for p in pieces])\n                        if info.model_fluxes is not None:\n                            info.model_fluxes = np.concatenate([p.model_fluxes for p in pieces])\n                    info.meta = self._first_meta\n                    yield info')]),
    ('handler re-raises other errors explicitly', [(FI, "                except EOFError:\n                    return\n", "                except EOFError:\n                    return\n                except pickle.UnpicklingError:\n                    raise\n")]),
    ('yield after the try via else-free form', [(FI, "                except EOFError:\n                    return\n                else:\n                    info.meta = self._first_meta\n                    yield info",
                                                 "                except EOFError:\n                    return\n                info.meta = self._first_meta\n                yield info")]),
    ('break instead of return', [(FI, "                except EOFError:\n                    return\n", "                except EOFError:\n                    break\n")]),
]


def thorough(ctx):
    from .. import selftest
    selftest.run(ctx, MUST_FIRE, MUST_SILENT)
