"""C09 Parameter listings follow the fit ranking, for any parameter-file order."""
import ast

from .. import alg
from ..alg import Poly, P, B, C, L, sym, mk_fn
from ..interp import Interp, Hooks, Arr, Obj, Unk, SymTable, symarr, scalar, num, Foreign, Fmt, count_atom, _SelectVal
from ..fitmodel import loc, compare
from ..astutil import up, walk_local, stores, chain, calls, const, root_name, enclosing_map
from ..rules import where
from ..loader import AnalysisError
from . import common
from .c10 import check_inputs as check_ctor

T_, R_ = 't', 'r'
EXPLANATION = (
    "(PERM-9) FitInfo.filter_table, value-numbered on a symbolic table: every returned column is col[isin(table names, fit names)][argsort(argsort(fit names))] - the rows "
    "whose name occurs in the fit, re-indexed by the rank of each fit's name - and a post-check raises unless the resulting names equal the fit's names in order; additional "
    "parameters are looked up by model name. This re-index is correct exactly when the table is sorted by (stripped) name, so (AGREE-6, typestate) at each of the five call "
    "sites the table argument has been through t['MODEL_NAME'] = np.char.strip(...) and t.sort('MODEL_NAME') at the top level of the function before the call, and is not "
    "rebound afterwards. (ALG-20) write_parameter_ranges prints (nanmin(x), x[0], nanmax(x)) of the same x for chi2, A_V, scale and each parameter column. (PERM-8) in "
    "write_parameters / extract_parameters every per-fit array is indexed by the loop variable of the fit loop only. n_data and n_fits come from info.source.n_data and "
    "info.n_fits. (API-1) every library name used on this path exists; (CFG-10) a list of result objects is accepted.")
NOT_DECIDED = ["text formatting widths", "np.isin / argsort library semantics"]
ASSUMPTIONS = ["model names are unique in the parameter table and in a fit (package invariant)"]
TRUSTED = ["python ast", "sedlint E4/E5"]
MIN = {'PERM-9': 3, 'CFG-6': 1, 'AGREE-6': 5, 'ALG-20': 5, 'PERM-8': 2, 'API-1': 5, 'CFG-10': 3}

CALLERS = [('write_parameters', 'write_parameters'), ('write_parameter_ranges', 'write_parameter_ranges'), ('extract_parameters', 'extract_parameters'),
           ('plot_params_1d', 'plot_params_1d'), ('plot_params_2d', 'plot_params_2d')]


def _gather_index(col, base, label):
    """col == table column ``base`` (over ``label``) read at the rows idx: idx, else None"""
    if not isinstance(col, Arr) or col.mask is not None or col.ndim != 1 or not col.poly.is_monomial():
        return None
    (m, c), = col.poly.t.items()
    if c != 1 or len(m) != 1 or m[0][1] != 1:
        return None
    a = m[0][0]
    if a[0] == 'fn' and a[1] == 'at' and len(a) == 4 and a[2][0] == 'B' and a[2][1] == label and a[3][0] == 'P' and Poly.from_key(a[2][2]) == sym(base, label):
        return Poly.from_key(a[3][1])
    return None


def check_filter_table(ctx):
    repo = ctx.repo
    ft = ctx.fn(repo.func('fit_info', 'FitInfo.filter_table'))
    I = Interp(repo)
    T = SymTable({'MODEL_NAME': symarr('tname', (T_,)), 'P1': symarr('p1', (T_,))}, T_)
    info = Obj(repo.cls('fit_info', 'FitInfo'), {'model_name': symarr('mname', (R_,)), 'chi2': symarr('chi2', (R_,)), 'av': symarr('av', (R_,)), 'sc': symarr('sc', (R_,)),
                                                 'model_id': symarr('model_id', (R_,))})
    out = I.call(ft, [T], selfv=info)
    where_ = loc(ft)
    if not isinstance(out, SymTable):
        if I.findings or (isinstance(out, Unk) and out.definite):
            compare(ctx, 'PERM-9', 'filter_table result', where_, out if isinstance(out, Unk) else Unk('x'), Poly(), findings=I.findings)
        else:
            ctx.undecided('PERM-9', 'filter_table result', where_, 'not modelled: %r' % (out,))
        return
    member = alg.mk_ind('true', mk_fn('isin', P(sym('tname', T_)), B(R_, sym('mname', R_))))
    rank = alg.array_fn('argsort', R_, alg.array_fn('argsort', R_, sym('mname', R_)))
    new = T_ + "'"
    from ..fitmodel import guard_requires
    from ..roundtrip import TrialCtx
    got_names = out.cols.get('MODEL_NAME')
    cands = []
    if isinstance(got_names, Arr):
        for lhs in (got_names.poly, mk_fn('strip', P(got_names.poly))):
            for rhs in (sym('mname', R_), mk_fn('strip', P(sym('mname', R_)))):
                cands.append(mk_fn('all', B(R_, alg.eq(lhs, rhs))))
    okg, seen = guard_requires(I, cands)
    t = TrialCtx(ctx)
    for c, base in (('MODEL_NAME', sym('tname', T_)), ('P1', sym('p1', T_))):
        ref = mk_fn('at', B(new, mk_fn('compress', L(new), B(T_, base), B(T_, member))), P(rank))
        compare(t, 'PERM-9', 'filter_table column %s' % c, where_, out.cols.get(c), ref, (R_,), vocab={'tname', 'p1', 'mname', 'chi2', 'av', 'sc', 'model_id'}, fns={'isin', 'compress', 'nonzero', 'invperm'}, findings=I.findings,
                detail_ok='col[isin(table names, fit names)][argsort(argsort(fit names))]')
    rows = {c: _gather_index(out.cols.get(c), base_, T_) for c, base_ in (('MODEL_NAME', 'tname'), ('P1', 'p1'))}
    if t.n_undecided and not t.n_violations and okg and rows['MODEL_NAME'] is not None and rows['P1'] is not None and not I.lost and not I.findings:
        # the rows are found another way than by the double argsort.  What the property asks of them does not depend on the way: every column is taken from the
        # table at the same rows, and the function refuses to return unless the names on those rows are the fits' names in order (CFG-6 below)
        same = rows['MODEL_NAME'] == rows['P1']
        for c in ('MODEL_NAME', 'P1'):
            ctx.expect(same, 'PERM-9', 'filter_table column %s' % c, where_, 'every column is read at the same table rows, and the post-check admits only rows whose names are the fits\' names in order',
                       'the columns are read at different rows: MODEL_NAME at %s, P1 at %s' % (alg.show(rows['MODEL_NAME'], 70), alg.show(rows['P1'], 70)), 'row-coherence')
    else:
        t.commit()
    ctx.expect(okg, 'CFG-6', 'filter_table post-check', where_, 'raises unless the returned names equal the fit\'s names in order', 'no raising post-check on the names (guards: %s)' % seen, 'post-check')
    # additional parameters keyed by name: filter_table interpreted with a symbolic per-name dictionary; the column it attaches must hold, on row r, the entry
    # of the (stripped) model name of row r
    from ..roundtrip import SuspectCtx
    inst = 'additional parameters attached by model name'

    def lookup(name_poly):
        # the entry for a name: the value at the position the name has among the keys (keys and values as the dictionary holds them, in one order)
        return mk_fn('at', B('k', sym('lookup_values', 'k')), P(mk_fn('keypos', B('k', sym('lookup_keys', 'k')), P(name_poly))))

    class _Lookup(Foreign):
        def sl_getitem(self, interp, key, node):
            k_ = interp._as_arr(key)
            if isinstance(k_, Arr):
                return Arr(k_.dims, lookup(k_.poly), unit=num(1))
            return NotImplemented

        def sl_contains(self, interp, key):
            return True

        def sl_method(self, interp, name, args, kw, node):
            if name == 'values' and not args:
                return symarr('lookup_values', ('k',), unit=num(1))          # the entries in the order the dictionary happens to hold them: not an order of the rows
            if name == 'keys' and not args:
                return symarr('lookup_keys', ('k',))
            return NotImplemented
    I2 = Interp(repo)
    T2 = SymTable({'MODEL_NAME': symarr('tname', (T_,)), 'P1': symarr('p1', (T_,))}, T_)
    info2 = Obj(repo.cls('fit_info', 'FitInfo'), dict(info.attrs))
    out2 = I2.call(ft, [T2], {'additional': {'EXTRA': _Lookup()}}, selfv=info2)
    col = out2.cols.get('EXTRA') if isinstance(out2, SymTable) else None
    names2 = out2.cols.get('MODEL_NAME') if isinstance(out2, SymTable) else None
    decided = False
    if isinstance(col, Arr) and col.mask is None and col.ndim == 1 and col.dims[0] not in (R_, None) and isinstance(out2, SymTable) and out2.label == R_:
        # a column built along another axis of the same length and attached to the table: it lands on the rows by position
        col = Arr((R_,), alg.index_at(col.poly, col.dims[0], sym('idx:' + R_, R_)), unit=col.unit)
    if isinstance(col, Arr) and isinstance(names2, Arr) and col.mask is None and tuple(col.dims) == (R_,):
        want = [lookup(mk_fn('strip', P(names2.poly))), lookup(names2.poly), lookup(mk_fn('strip', P(sym('mname', R_)))), lookup(sym('mname', R_))]
        if any(alg.is_zero(col.poly - w_)[0] for w_ in want):
            ctx.ok('PERM-9', inst, where_, 'row r receives additional[par][name of row r]')
            decided = True
        else:
            syms_, fns_ = alg.leaf_syms(col.poly)
            if syms_ <= {'tname', 'mname', 'p1', 'chi2', 'av', 'sc', 'model_id', 'lookup_keys', 'lookup_values'} | {x for x in syms_ if x.startswith('idx:')} \
                    and fns_ <= {'lookup', 'strip', 'at', 'argsort', 'invperm', 'nonzero', 'isin', 'len', 'keypos', 'rank'}:
                ctx.violation('PERM-9', inst, where_, 'additional parameters are not looked up by the row\'s model name: row r receives %s' % alg.show(col.poly, 160), 'additional-by-name')
                decided = True
    clash = [f for f in I2.findings if f.kind == 'label-clash']
    if not decided and clash:
        ctx.violation('PERM-9', inst, '%s:%d %s' % (clash[0].module, clash[0].line, where_.split(' ', 1)[-1]), 'additional parameters are not looked up by the row\'s model name: %s' % clash[0].msg, 'additional-by-name')
        decided = True
    if not decided:
        sctx = SuspectCtx(ctx, 'the attached column was not decided by interpretation (%r) and the syntactic rule, which knows one spelling only, reports' % (col if col is not None else out2,))
        ok = False
        for n in walk_local(ft.node):
            if isinstance(n, ast.For) and isinstance(n.iter, ast.Call) and (chain(n.iter.func) or '') == 'enumerate' and 'MODEL_NAME' in up(n.iter) and isinstance(n.target, ast.Tuple):
                iv, nv = n.target.elts[0].id, n.target.elts[1].id
                for t, v, st in stores(n):
                    if isinstance(t, ast.Subscript) and up(t.slice) == iv and isinstance(v, ast.Subscript) and nv in up(v.slice) and 'additional' in up(v.value):
                        ok = True
        sctx.expect(ok, 'PERM-9', inst, where_, 'row i receives additional[par][name of row i]', 'additional parameters are not looked up by the row\'s model name', 'additional-by-name')



# ---------------------------------------------------------------- the consumers, interpreted

class _FileStand(Foreign):
    """FitInfoFile stand-in: iterates over one generic result; .meta is that result's metadata"""
    def __init__(self, hooks):
        self.hooks = hooks

    def sl_iter(self, interp):
        return [self.hooks.record]

    def sl_method(self, interp, name, args, kw, node):
        if name in ('close', 'write'):
            return None
        return NotImplemented

    def sl_getattr(self, interp, name, node):
        if name == 'meta':
            return self.hooks.record.attrs.get('meta')
        return NotImplemented


class _Sink(Foreign):
    def __init__(self):
        self.writes = []

    def sl_method(self, interp, name, args, kw, node):
        if name == 'write':
            def put(v, cond):
                if isinstance(v, _SelectVal):
                    # one of two pieces of text, chosen by the data: each is what is written, under its condition
                    put(v.a, v.cond if cond is None else cond * v.cond)
                    put(v.b, alg.b_not(v.cond) if cond is None else cond * alg.b_not(v.cond))
                else:
                    self.writes.append((v, cond))
            put(args[0] if args else None, interp.path_cond())
            return None
        if name in ('close', 'flush'):
            return None
        return NotImplemented


class NamedLookup(Foreign):
    """a per-model dictionary of one additional parameter: lookup[name] is the symbolic value lookup_<key>(name)"""
    def __init__(self, key):
        self.key = key

    def sl_getitem(self, interp, k, node):
        k_ = interp._as_arr(k)
        if isinstance(k_, Arr):
            return Arr(k_.dims, mk_fn('lookup_' + self.key, P(k_.poly)), unit=num(1))
        return NotImplemented

    def sl_contains(self, interp, k):
        return True

    def sl_method(self, interp, name, args, kw, node):
        # the dictionary taken apart: its keys and its values, in the one order it holds them
        if name == 'values' and not args:
            return symarr('lookup_%s_values' % self.key, ('k',), unit=num(1))
        if name == 'keys' and not args:
            return symarr('lookup_%s_keys' % self.key, ('k',))
        return NotImplemented


class ConsumerHooks(Hooks):
    def __init__(self, repo, real_filter=False):
        self.real_filter = real_filter
        self.captured, self.sink, self.events = [], _Sink(), []
        meta = Obj(repo.cls('fit_info', 'FitInfoMeta'), {'model_dir': 'DIR', 'filters': [], 'extinction_law': None})
        src = Obj(repo.cls('source.source', 'Source'), {'_valid': symarr('valid', ('w',), unit=num(1)), '_name': 'S'})
        self.record = Obj(repo.cls('fit_info', 'FitInfo'), {'source': src, 'chi2': symarr('chi2', (R_,), unit=num(1)), 'av': symarr('av', (R_,), unit=num(1)), 'sc': symarr('sc', (R_,), unit=num(1)),
                                                            'model_name': symarr('mname', (R_,)), 'model_id': symarr('model_id', (R_,)), 'model_fluxes': None, 'meta': meta})

    def construct(self, interp, ci, args, kwargs, node):
        if ci.name == 'FitInfoFile':
            return _FileStand(self)
        return NotImplemented

    def opaque(self, interp, fi, args, kwargs, node):
        q = fi.qual
        if q.endswith(':load_parameter_table'):
            return SymTable({'MODEL_NAME': symarr('tname', (T_,)), 'P1': symarr('p1', (T_,), unit=num(1))}, T_)
        if q.endswith(':FitInfo.filter_table') and self.real_filter:
            return NotImplemented
        if q.endswith(':FitInfo.filter_table'):
            self.events.append(('filter_table', None))
            self.captured.append((args, kwargs))
            return SymTable({'MODEL_NAME': symarr('fname', (R_,)), 'P1': symarr('fp1', (R_,), unit=num(1))}, R_)
        if q.endswith(':FitInfo.keep'):
            self.events.append(('keep', (args[1] if len(args) > 1 else kwargs.get('select_format'), args[0] if args else None)))
            return None
        if q.endswith(':create_dir') or fi.name in ('get_axes', 'tex_friendly'):
            return None
        return NotImplemented

    def external(self, interp, name, args, kwargs, node, mod):
        if name == 'builtins.open':
            return self.sink
        return NotImplemented


CONSUMER_ARGS = {'write_parameters': (['IN', 'OUT'], {}), 'write_parameter_ranges': (['IN', 'OUT'], {}), 'extract_parameters': ([], {'input': 'IN', 'output_prefix': 'OUT', 'output_suffix': ''}),
                 'plot_params_1d': (['IN', 'P1', 'OUTDIR'], {}), 'plot_params_2d': (['IN', 'P1', 'P1', 'OUTDIR'], {})}


def run_consumer(repo, module, func):
    h = ConsumerHooks(repo)
    I = Interp(repo, h)
    a, k = CONSUMER_ARGS[func]
    k = dict(k)
    k['select_format'] = SELECTOR
    r = I.call(repo.func(module, func), list(a), k)
    return I, h, r


SELECTOR = ('F', 7)          # the selector handed to every consumer (keep() is summarised: only where it goes matters here)


def check_callers_semantic(ctx):
    """(AGREE-6) each consumer is interpreted up to its call of filter_table: the table it hands over is the parameter table with stripped names,
    every column re-ordered by increasing stripped name - wherever and however the function (or a helper of it) does the stripping and sorting"""
    repo = ctx.repo
    decided = True
    tn = mk_fn('strip', P(sym('tname', T_)))
    order = alg.array_fn('argsort', T_, tn)
    for module, func in CALLERS:
        fi = ctx.fn(repo.func(module, func))
        inst = '%s: table passed to filter_table is stripped and name-sorted' % func
        try:
            I, h, r = run_consumer(repo, module, func)
        except Exception as e:
            ctx.undecided('AGREE-6', inst, loc(fi), 'not interpreted: %s' % e); decided = False
            continue
        # 'over the selected fits': the caller's selector is applied to the record before anything is looked up for it
        inst_k = '%s: the selection asked for is applied before the parameters are looked up' % func
        first_ft = next((i for i, ev in enumerate(h.events) if ev[0] == 'filter_table'), None)
        keeps = [ev[1] for ev in h.events[:first_ft if first_ft is not None else len(h.events)] if ev[0] == 'keep']
        if first_ft is not None and any(sel == SELECTOR and rec is h.record for sel, rec in keeps):
            ctx.ok('AGREE-6', inst_k, loc(fi), 'info.keep(select_format) on the record, then filter_table')
        elif first_ft is None or I.lost:
            # the absence of the call is a verdict only when every call was followed
            ctx.undecided('AGREE-6', inst_k, loc(fi), 'the consumer was not followed to its look-up' if first_ft is None else 'a call made for its effect was not modelled: %s' % (I.lost[0],)); decided = False
        else:
            ctx.violation('AGREE-6', inst_k, loc(fi), 'the record reaches filter_table %s' % ('after keep(%r), not the selector it was given' % (keeps[0][0],) if keeps else 'without keep(select_format): every fit in the file is listed'), 'selection-not-applied')
        tabs = [a[1] if len(a) > 1 else k.get('input_table') for a, k in h.captured]
        if not tabs or not all(isinstance(t, SymTable) for t in tabs):
            ctx.undecided('AGREE-6', inst, loc(fi), 'the table handed to filter_table was not captured (%r)' % (r,)); decided = False
            continue
        t = tabs[0]
        bad, unknown = [], []
        for c, base in (('MODEL_NAME', tn), ('P1', sym('p1', T_))):
            col = t.cols.get(c)
            if not isinstance(col, Arr):
                unknown.append(c)
                continue
            ref = mk_fn('at', B(T_, base), P(order))
            got = col.poly if c != 'MODEL_NAME' else col.poly
            if not (alg.is_zero(got - ref)[0] or (c == 'MODEL_NAME' and alg.is_zero(mk_fn('strip', P(got)) - ref)[0])):
                syms, fns = alg.leaf_syms(got - ref)
                (bad if syms <= {'tname', 'p1'} and fns <= {'strip', 'argsort', 'at', 'sort', 'rev'} else unknown).append('%s = %s' % (c, alg.show(got, 100)))
        if bad:
            ctx.violation('AGREE-6', inst, loc(fi), 'the table reaches filter_table as %s: not the stripped names in increasing order with every column re-ordered alike, so the rank re-index '
                          'pairs fits with other models\' parameters or the post-check raises' % '; '.join(bad), 'not-name-sorted')
        elif unknown:
            ctx.undecided('AGREE-6', inst, loc(fi), 'columns not decided: %s' % unknown); decided = False
        else:
            ctx.ok('AGREE-6', inst, loc(fi), 'MODEL_NAME == strip(names)[argsort(strip(names))], the other columns re-ordered by the same order')
    return decided


def check_ranges_semantic(ctx):
    """(ALG-20) write_parameter_ranges interpreted on one generic result: what it writes contains, for chi2, A_V, scale and a parameter column of the filtered
    table, the three values (nanmin(x), x[0], nanmax(x)) next to each other"""
    repo = ctx.repo
    fi = ctx.fn(repo.func('write_parameter_ranges', 'write_parameter_ranges'))
    try:
        I, h, r = run_consumer(repo, 'write_parameter_ranges', 'write_parameter_ranges')
    except Exception as e:
        ctx.undecided('ALG-20', 'ranges written', loc(fi), 'not interpreted: %s' % e)
        return False
    seq, seq_empty = [], []
    ca = count_atom(R_)

    def under(cond, n_):
        """the condition a write is made under, for a result of n_ fits: True / False / None (not decided)"""
        if cond is None:
            return True
        c_ = alg.rebuild(cond, lambda a: Poly.const(n_) if a == ca else None)
        return (c_.const_value() != 0) if c_.is_const() else None
    for w, cond in h.sink.writes:
        some, none = under(cond, 3), under(cond, 0)
        if isinstance(w, Fmt):
            if some is not False:          # written for a result that has fits (or: not decided - then it may be)
                seq += [v.poly for v in w.values if isinstance(v, Arr)]
            if none is not False:
                seq_empty += [v.poly for v in w.values if isinstance(v, Arr)]
        elif isinstance(w, Unk) and some is not False:
            seq.append(None)
    if not [x for x in seq if x is not None]:
        ctx.undecided('ALG-20', 'ranges written', loc(fi), 'no formatted values captured')
        return False
    seq = [None if p_ is None else _all_nan_case(p_) for p_ in seq]
    decided = True
    for name, x in (('info.chi2', sym('chi2', R_)), ('info.av', sym('av', R_)), ('info.sc', sym('sc', R_)), ('a parameter column', sym('fp1', R_))):
        want = (mk_fn('nanmin', B(R_, x)), mk_fn('at', B(R_, x), P(Poly())), mk_fn('nanmax', B(R_, x)))
        hit = any(all(seq[i + k] is not None and seq[i + k] == want[k] for k in range(3)) for i in range(len(seq) - 2))
        inst = 'range of %s' % name
        if hit:
            ctx.ok('ALG-20', inst, loc(fi), '(nanmin(x), x[0], nanmax(x)) written together')
            continue
        mentions = [alg.show(p_, 60) for p_ in seq if p_ is not None and alg.leaf_syms(p_)[0] & alg.leaf_syms(x)[0]]
        if not mentions and None not in seq and not I.lost:
            # every write was followed and none of them, for a result that has fits, shows a value of x
            ctx.violation('ALG-20', inst, loc(fi), 'nothing computed from it is written for a result that has fits', 'range-missing')
        elif not mentions:
            ctx.undecided('ALG-20', inst, loc(fi), 'values written for it not captured'); decided = False
        else:
            ctx.violation('ALG-20', inst, loc(fi), 'writes %s for it, not (nanmin(x), x[0], nanmax(x))' % mentions[:4], 'range-triple')
    # a result left with no fits has no best fit to print: x[0] does not exist
    firsts = [p_ for p_ in seq_empty if any(p_ == mk_fn('at', B(R_, x_), P(Poly())) for x_ in (sym('chi2', R_), sym('av', R_), sym('sc', R_), sym('fp1', R_)))]
    ctx.expect(not firsts, 'ALG-20', 'a result with no fits left', loc(fi), 'no element of an empty array is read: the columns are filled with the no-data mark',
               'the best-fit value x[0] is written although the selection left no fit (IndexError)', 'empty-result')
    # the two counts printed with every source
    v = sym('valid', 'w')
    nd = alg.sum_over(alg.eq(v, 1), 'w') + alg.sum_over(alg.eq(v, 4), 'w')
    nf = alg.count(R_)
    known = [p_ for p_ in seq if p_ is not None]
    has_nd, has_nf = any(p_ == nd for p_ in known), any(p_ == nf for p_ in known)
    if has_nd and has_nf:
        ctx.ok('ALG-20', 'n_data and n_fits columns', loc(fi), 'info.source.n_data and info.n_fits')
    else:
        others = [alg.show(p_, 60) for p_ in known if alg.leaf_syms(p_)[0] <= {'valid'} or (not alg.leaf_syms(p_)[0] and 'len' in alg.leaf_syms(p_)[1])]
        if None in seq:
            # something written was not modelled: the count may be it
            ctx.undecided('ALG-20', 'n_data and n_fits columns', loc(fi), 'a value written is not modelled; count-like values recognised: %s' % others[:4]); decided = False
        else:
            ctx.violation('ALG-20', 'n_data and n_fits columns', loc(fi), 'n_data / n_fits are not taken from info.source.n_data / info.n_fits (count-like values written: %s)' % others[:4], 'counts')
    return decided


def check_callers_syntactic(ctx):
    repo = ctx.repo
    for module, func in CALLERS:
        fi = ctx.fn(repo.func(module, func))
        cs = [c for c in calls(fi.node) if isinstance(c.func, ast.Attribute) and c.func.attr == 'filter_table']
        if not cs:
            raise AnalysisError('%s: no filter_table call' % fi.qual)
        for c in cs:
            inst = '%s: table passed to filter_table is stripped and name-sorted' % func
            if not (c.args and isinstance(c.args[0], ast.Name)):
                ctx.undecided('AGREE-6', inst, where(fi, c), 'table argument is not a plain name')
                continue
            tn = c.args[0].id
            top = fi.node.body
            strip_i = sort_i = bind_i = None
            rebinds = []
            for i, st in enumerate(top):
                if isinstance(st, ast.Assign) and len(st.targets) == 1:
                    t, v = st.targets[0], st.value
                    if isinstance(t, ast.Name) and t.id == tn:
                        if bind_i is None:
                            bind_i = i
                        else:
                            rebinds.append(i)
                    if isinstance(t, ast.Subscript) and up(t.value) == tn and const(t.slice) == 'MODEL_NAME' and isinstance(v, ast.Call) and (chain(v.func) or '').endswith('strip') \
                            and up(v.args[0]) == "%s['MODEL_NAME']" % tn:
                        strip_i = i
                if isinstance(st, ast.Expr) and isinstance(st.value, ast.Call) and chain(st.value.func) == tn + '.sort' and st.value.args and const(st.value.args[0]) == 'MODEL_NAME':
                    sort_i = i
            call_i = None
            for i, st in enumerate(top):
                if any(x is c for x in ast.walk(st)):
                    call_i = i
            # any nested rebinding of the table name after the sort also breaks the typestate
            strip_line = top[strip_i].lineno if strip_i is not None else 0
            nested = [st for t, v, st in stores(fi.node) if isinstance(t, ast.Name) and t.id == tn and st not in top and st.lineno > strip_line]
            good = None not in (bind_i, strip_i, sort_i, call_i) and bind_i < strip_i < sort_i < call_i and not [r for r in rebinds if r > strip_i] and not nested
            ctx.expect(good, 'AGREE-6', inst, where(fi, c), "t['MODEL_NAME'] = np.char.strip(...) ; t.sort('MODEL_NAME') dominate the call",
                       'the table reaches filter_table without being stripped and sorted by name (bind %s, strip %s, sort %s, call %s): the rank re-index then pairs fits with other models\' parameters or the post-check raises'
                       % (bind_i, strip_i, sort_i, call_i), 'not-name-sorted')


def names_in_consumer(fi):
    """(record loop variable, sorted-table variable, parameter loop variable) of a post-processing function"""
    rec = tab = None
    for n in walk_local(fi.node):
        if isinstance(n, ast.For) and isinstance(n.target, ast.Name) and isinstance(n.iter, ast.Name):
            for t, v, st in stores(n):
                if isinstance(t, ast.Name) and isinstance(v, ast.Call) and isinstance(v.func, ast.Attribute) and v.func.attr == 'filter_table' \
                        and isinstance(v.func.value, ast.Name) and v.func.value.id == n.target.id:
                    rec, tab = n.target.id, t.id
    return rec, tab


def check_ranges_syntactic(ctx):
    repo = ctx.repo
    fi = ctx.fn(repo.func('write_parameter_ranges', 'write_parameter_ranges'))
    rec, tab = names_in_consumer(fi)
    if rec is None:
        raise AnalysisError('write_parameter_ranges: record loop / filter_table call not found')
    found = {}
    for c in calls(fi.node):
        if isinstance(c.func, ast.Attribute) and c.func.attr == 'write' and c.args and isinstance(c.args[0], ast.BinOp) and isinstance(c.args[0].op, ast.Mod) and isinstance(c.args[0].right, ast.Tuple):
            tup = c.args[0].right.elts
            if len(tup) == 3 and all(not isinstance(x, ast.Name) for x in tup):
                a, b, d = tup
                found[up(b)] = (a, b, d, c)
    cols = [k[:-3] for k in found if k.startswith(tab + '[') and k.endswith('[0]')]
    want = ['%s.chi2' % rec, '%s.av' % rec, '%s.sc' % rec] + (cols[:1] or ['%s[par]' % tab])
    for x in want:
        inst = 'range of %s' % x.replace(rec + '.', 'info.').replace(tab, 'tsorted')
        key = x + '[0]'
        if key not in found:
            ctx.violation('ALG-20', inst, where(fi), 'no (min, best, max) triple whose best value is %s' % key, 'missing-triple')
            continue
        a, b, d, c = found[key]
        ok = up(a) in ('np.nanmin(%s)' % x,) and up(d) in ('np.nanmax(%s)' % x,)
        ctx.expect(ok, 'ALG-20', inst, where(fi, c), '(nanmin(x), x[0], nanmax(x))', 'writes (%s, %s, %s)' % (up(a), up(b), up(d)), 'range-triple')
    ok = any(('%s.source.n_data' % rec) in up(c) for c in calls(fi.node)) and any(up(c).endswith('%% %s.n_fits)' % rec) for c in calls(fi.node))
    ctx.expect(ok, 'ALG-20', 'n_data and n_fits columns', where(fi), 'info.source.n_data and info.n_fits', 'n_data / n_fits are not taken from info.source.n_data / info.n_fits', 'counts')


def check_row_index(ctx):
    repo = ctx.repo
    for module, func, per_fit in (('write_parameters', 'write_parameters', ('model_name', 'chi2', 'av', 'sc')), ('extract_parameters', 'extract_parameters', ('chi2', 'av', 'sc'))):
        fi = ctx.fn(repo.func(module, func))
        rec, tab = names_in_consumer(fi)
        inst = '%s: per-fit arrays indexed by the fit loop variable' % func
        if rec is None:
            raise AnalysisError('%s: record loop / filter_table call not found' % func)
        loops = [n for n in walk_local(fi.node) if isinstance(n, ast.For) and isinstance(n.target, ast.Name) and isinstance(n.iter, ast.Call) and chain(n.iter.func) == 'range'
                 and (('%s.chi2' % rec) in up(n.iter) or ('%s.n_fits' % rec) in up(n.iter))]
        if len(loops) != 1:
            ctx.undecided('PERM-8', inst, where(fi), 'fit loop not found (%d)' % len(loops))
            continue
        lp = loops[0]
        iv = lp.target.id
        rng_ok = up(lp.iter) in ('range(len(%s.chi2))' % rec, 'range(%s.n_fits)' % rec)
        bad, n = [], 0
        for s_ in walk_local(lp):
            if isinstance(s_, ast.Subscript) and isinstance(s_.ctx, ast.Load):
                base = up(s_.value)
                is_tab_col = isinstance(s_.value, ast.Subscript) and up(s_.value.value) == tab
                if base == tab and (isinstance(s_.slice, ast.Constant) or (isinstance(s_.slice, ast.Name) and s_.slice.id != iv and not any(s_.slice.id == l.target.id for l in [lp]))):
                    if not isinstance(s_.slice, ast.Constant) and up(s_.slice) == iv:
                        pass
                    else:
                        # column selection by name / loop over parameter names, not a row index ... unless it is a plain integer-valued name
                        par_loops = [l for l in walk_local(lp) if isinstance(l, ast.For) and isinstance(l.target, ast.Name) and l.target.id == up(s_.slice)]
                        if isinstance(s_.slice, ast.Constant) or par_loops:
                            continue
                if base in ['%s.%s' % (rec, a) for a in per_fit] or is_tab_col or base == tab:
                    n += 1
                    if up(s_.slice) != iv:
                        bad.append(up(s_))
        ctx.expect(rng_ok and not bad and n >= len(per_fit), 'PERM-8', inst, where(fi, lp), '%d subscripts, all [%s], loop over all selected fits' % (n, iv),
                   'rows mixed: %s (loop %s)' % (bad, up(lp.iter)), 'row-index')
        if func == 'write_parameters':
            ok = any(('%s.source.n_data' % rec) in up(c) for c in calls(fi.node))
            ctx.expect(ok and any(up(c).endswith('%% %s.n_fits)' % rec) for c in calls(fi.node)), 'PERM-8', '%s: n_data and n_fits' % func, where(fi), 'info.source.n_data and info.n_fits',
                       'n_data / n_fits not taken from the record', 'counts')


def check_row_index_semantic(ctx):
    """(PERM-8) the consumers that print one row per fit are interpreted with a file stand-in; every value they write that comes from a per-fit array (model
    name, chi^2, A_V, scale, the columns of the filtered table) must be the element of that array at the row being written - the generic element of the fit
    axis - and the row must be written for every selected fit.  Returns False when the interpretation has no verdict."""
    from ..interp import Fmt
    repo = ctx.repo
    decided = True
    for module, func, per_fit in (('write_parameters', 'write_parameters', ('mname', 'chi2', 'av', 'sc', 'fp1')), ('extract_parameters', 'extract_parameters', ('chi2', 'av', 'sc', 'fp1'))):
        fi = ctx.fn(repo.func(module, func))
        inst = '%s: per-fit arrays indexed by the fit loop variable' % func
        try:
            I, h, r = run_consumer(repo, module, func)
        except Exception as ex:
            ctx.undecided('PERM-8', inst, where(fi), 'consumer not interpreted: %s' % str(ex)[:120]); decided = False
            continue
        rows = {}          # per-fit array -> [(value, condition)]
        unk = [w for w, c_ in h.sink.writes if isinstance(w, Unk)]
        mixed, partial = [], []
        scalars = []
        for w, c_ in h.sink.writes:
            if not isinstance(w, Fmt):
                continue
            for v in w.values:
                if not isinstance(v, Arr):
                    continue
                syms, fns_ = alg.leaf_syms(v.poly)
                hit = [x for x in per_fit + ('fname',) if x in syms]
                if not hit:
                    scalars.append(v)
                    continue
                if v.poly == sym(hit[0], R_) and len(hit) == 1:
                    rows.setdefault(hit[0], []).append(c_)
                    if not (c_ == Poly.const(1)):
                        partial.append('%s under %s' % (hit[0], alg.show(c_, 80)))
                elif {x for x in syms if not x.startswith('idx:')} <= set(per_fit) | {'fname', 'model_id'} and fns_ <= {'at', 'len', 'rev', 'argsort', 'min', 'max', 'nanmin', 'nanmax', 'sum'}:
                    mixed.append(alg.show(v.poly, 80))
                else:
                    unk.append(Unk('written value %s' % alg.show(v.poly, 80)))
        missing = [x for x in per_fit if x not in rows]
        clean = not (isinstance(r, Unk) or unk or I.lost)
        # each value under its own heading: the order in which the per-fit values first appear on a row against the order of the words of the heading line
        order_vals = []
        for w, c_ in h.sink.writes:
            if isinstance(w, Fmt):
                for v in w.values:
                    if isinstance(v, Arr):
                        for x in per_fit:
                            if v.poly == sym(x, R_) and x not in order_vals:
                                order_vals.append(x)
        words = {'model_name': 'mname', 'chi2': 'chi2', 'av': 'av', 'scale': 'sc', 'sc': 'sc', 'p1': 'fp1'}
        heading = []
        for ln_ in ''.join(w for w, c_ in h.sink.writes if isinstance(w, str)).split('\n'):
            toks = [words[t_] for t_ in ln_.lower().split() if t_ in words]
            if 'chi2' in toks and 'av' in toks:
                heading = [t_ for k_, t_ in enumerate(toks) if t_ not in toks[:k_]]
                break
        if mixed:
            ctx.violation('PERM-8', inst, where(fi), 'a row of the listing mixes fits: alongside the values of fit r it prints %s' % '; '.join(mixed[:3]), 'row-index')
        elif partial:
            ctx.violation('PERM-8', inst, where(fi), 'rows are not written for every selected fit: %s' % '; '.join(partial[:3]), 'row-partial')
        elif missing and clean:
            # every write was followed: the value is not on the row
            ctx.violation('PERM-8', inst, where(fi), 'the row of a fit never shows %s of that fit' % ', '.join({'mname': 'the model name', 'chi2': 'the chi^2', 'av': 'the A_V', 'sc': 'the scale', 'fp1': 'the parameter value'}[x] for x in missing), 'row-missing')
        elif isinstance(r, Unk) or unk or missing:
            ctx.undecided('PERM-8', inst, where(fi), 'listing not modelled: %s' % (r if isinstance(r, Unk) else (unk[0] if unk else 'no write of %s found' % missing)))
            decided = False
        else:
            ctx.ok('PERM-8', inst, where(fi), 'every per-fit value printed on the row of fit r is element r of its array (%s), for every selected fit' % ', '.join(sorted(rows)))
            if heading and clean:
                vals_ = [x for x in order_vals if x in heading]
                ctx.expect(vals_ == [x for x in heading if x in vals_], 'PERM-8', '%s: chi^2, A_V, scale and the parameters under their own headings' % func, where(fi),
                           'the values of a row come in the order of the heading line (%s)' % ', '.join(heading),
                           'the heading line reads %s but the values of a row come in the order %s' % (heading, vals_), 'heading-order')
        if func == 'write_parameters' and not (isinstance(r, Unk) or unk):
            V = sym('valid', 'w')
            nd = alg.sum_over(alg.eq(V, 1), 'w') + alg.sum_over(alg.eq(V, 4), 'w')
            has_nd = any(alg.is_zero(v.poly - nd)[0] for v in scalars)
            has_nf = any(alg.is_zero(v.poly - alg.count(R_))[0] for v in scalars)
            ctx.expect(has_nd and has_nf, 'PERM-8', '%s: n_data and n_fits' % func, where(fi), 'the header of each source prints the number of fitted data points and the number of fits kept',
                       'n_data / n_fits not taken from the record (scalars printed: %s)' % [alg.show(v.poly, 60) for v in scalars][:4], 'counts')
    return decided


def check_headers_semantic(ctx):
    """(PERM-8) write_parameters and write_parameter_ranges interpreted with two additional per-model parameters given in non-alphabetical order and the real
    filter_table: the k-th parameter name of the header line and the k-th parameter value of a row must belong to the same parameter."""
    import re as _re
    repo = ctx.repo
    for module, func in (('write_parameters', 'write_parameters'), ('write_parameter_ranges', 'write_parameter_ranges')):
        fi = ctx.fn(repo.func(module, func))
        inst = '%s: each parameter value under its own header' % func
        h = ConsumerHooks(repo, real_filter=True)
        I = Interp(repo, h)
        try:
            r = I.call(fi, ['IN', 'OUT'], {'additional': {'zeta': NamedLookup('zeta'), 'alpha': NamedLookup('alpha')}})
        except (AnalysisError, RecursionError) as ex:
            r = Unk(str(ex)[:100])
        texts = [w for w, c_ in h.sink.writes if isinstance(w, str)]
        header = next((t for t in (''.join(texts)).split('\n') if 'p1' in t.lower().split() and ('zeta' in t.lower().split())), None)
        names = [x for x in (header or '').lower().split() if x in ('p1', 'zeta', 'alpha')]
        cols = []
        ca_ = count_atom(R_)
        for w, c_ in h.sink.writes:
            if c_ is not None:
                c3_ = alg.rebuild(c_, lambda a: Poly.const(3) if a == ca_ else None)
                if c3_.is_const() and c3_.const_value() == 0:
                    continue          # never written for a result that has fits (an impossible combination of the alternatives, or the no-data line)
            if isinstance(w, Fmt):
                for v in w.values:
                    if isinstance(v, Arr):
                        syms, fns_ = alg.leaf_syms(v.poly)
                        src = [n_ for n_ in ('zeta', 'alpha') if 'lookup_' + n_ in fns_ or 'lookup_%s_values' % n_ in syms] \
                            + (['p1'] if 'p1' in syms and not any(f.startswith('lookup_') for f in fns_ | syms) else [])
                        if len(src) == 1 and (not cols or cols[-1] != src[0]):
                            cols.append(src[0])
        cols = [c for k_, c in enumerate(cols) if c not in cols[:k_]]          # first appearance of each parameter among the values of a row
        clean_ = not (isinstance(r, Unk) or I.lost or any(isinstance(w, Unk) for w, c_ in h.sink.writes))
        if clean_ and header is not None and sorted(names) == ['alpha', 'p1', 'zeta'] and set(cols) < {'alpha', 'p1', 'zeta'}:
            # every write was followed: a parameter announced in the header has no value on the rows
            ctx.violation('PERM-8', inst, where(fi), 'the header line lists the parameters as %s but a row only shows values of %s: the additional parameters handed in are not attached' % (names, cols), 'header-values-missing')
        elif isinstance(r, Unk) or header is None or sorted(names) != ['alpha', 'p1', 'zeta'] or sorted(cols) != ['alpha', 'p1', 'zeta'] or any(isinstance(w, Unk) for w, c_ in h.sink.writes):
            ctx.undecided('PERM-8', inst, where(fi), 'listing with two additional parameters not modelled (header %s, value columns %s, result %r)' % (names, cols, r if isinstance(r, Unk) else None))
        else:
            ctx.expect(names == cols, 'PERM-8', inst, where(fi), 'header order %s == order of the values on a row' % names,
                       'the header line lists the parameters as %s but the values on a row come in the order %s: values are printed under another parameter\'s name' % (names, cols), 'header-order')


def check_rows(ctx):
    check_headers_semantic(ctx)
    from ..roundtrip import SuspectCtx
    if not check_row_index_semantic(ctx):
        try:
            check_row_index(SuspectCtx(ctx, 'the listing was not decided by interpretation and the syntactic rule, which knows one spelling only, reports'))
        except AnalysisError as e:
            ctx.undecided('PERM-8', 'syntactic fall-back', 'sedfitter', 'structure not recognised: %s' % e)


def check_callers(ctx):
    """decided by interpreting the consumers; the syntactic typestate rule is the fall-back and may only say undecided"""
    from ..roundtrip import SuspectCtx
    if not check_callers_semantic(ctx):
        try:
            check_callers_syntactic(SuspectCtx(ctx, 'the consumer was not decided by interpretation and the syntactic rule, which knows one spelling only, reports'))
        except AnalysisError as e:
            ctx.undecided('AGREE-6', 'syntactic fall-back', 'sedfitter', 'structure not recognised: %s' % e)


def _all_nan_case(p):
    """where every value of x is NaN (the bracket [len - #isnan(x) == 0] holds) the minimum and the maximum of x are NaN, which is also what nanmin / nanmax
    give: in the terms that carry that bracket min(x) / max(x) are written as nanmin(x) / nanmax(x), so that "the NaNs dropped unless there is nothing else"
    has the normal form of nanmin / nanmax"""
    out = Poly()
    for m, c in p.t.items():
        xs = set()
        for a, e in m:
            if a[0] == 'ind' and a[1] == '==0':
                q = Poly.from_key(a[2])
                for b in q.atoms():
                    if b[0] == 'sum':
                        for d in Poly.from_key(b[2]).atoms():
                            if d[0] == 'ind' and d[1] == 'isnan':
                                xs.add((b[1], d[2]))
        term = Poly.const(c)
        for a, e in m:
            if a[0] == 'fn' and a[1] in ('min', 'max') and len(a) == 3 and a[2][0] == 'B' and (a[2][1], a[2][2]) in xs:
                term = term * Poly.atom(('fn', 'nan' + a[1], a[2])).pow(e)
            else:
                term = term * Poly.atom(a).pow(e)
        out = out + term
    return out


def check_ranges(ctx):
    from ..roundtrip import SuspectCtx
    if not check_ranges_semantic(ctx):
        try:
            check_ranges_syntactic(SuspectCtx(ctx, 'the ranges were not decided by interpretation and the syntactic rule, which knows one spelling only, reports'))
        except AnalysisError as e:
            ctx.undecided('ALG-20', 'syntactic fall-back', 'sedfitter/write_parameter_ranges.py', 'structure not recognised: %s' % e)


def run(ctx):
    from . import c05
    c05.check_n_data(ctx)        # the listings print the source's number of fitted points: flags 1 and 4, as the source holds them when it is asked
    check_filter_table(ctx)
    check_callers(ctx)
    check_ranges(ctx)
    check_rows(ctx)
    common.api_rule(ctx, ['fit_info', 'write_parameters', 'write_parameter_ranges', 'extract_parameters', 'models', 'utils.io'], min_chains=60)
    check_ctor(ctx)


FI = 'sedfitter/fit_info.py'
WP = 'sedfitter/write_parameters.py'
WR = 'sedfitter/write_parameter_ranges.py'
EP = 'sedfitter/extract_parameters.py'
P1 = 'sedfitter/plot_params_1d.py'
MUST_FIRE = [
    ('undefined values dropped before the range is taken: the best entry becomes the first defined value, not the value of the best fit', [('sedfitter/write_parameter_ranges.py', "                fout.write('%10.3e %10.3e %10.3e ' % (np.nanmin(tsorted[par]), tsorted[par][0], np.nanmax(tsorted[par])))\n", "                values = tsorted[par][~np.isnan(tsorted[par])]\n                if len(values) == 0:\n                    values = tsorted[par]\n                fout.write('%10.3e %10.3e %10.3e ' % (np.min(values), values[0], np.max(values)))\n")]),
    ('additional parameters looked up for all rows at once: the rank among the sorted keys used as a position among the keys', [('sedfitter/fit_info.py', "            table_sorted[par] = np.zeros(len(table_sorted), dtype=float)\n            for i, name in enumerate(table_sorted['MODEL_NAME']):\n                table_sorted[par][i] = additional[par][name.strip()]\n", "            names = np.char.strip(table_sorted['MODEL_NAME'])\n            keys = np.array(list(additional[par].keys()))\n            values = np.array(list(additional[par].values()), dtype=float)\n            order = np.argsort(keys)\n            table_sorted[par] = values[np.searchsorted(keys, names, sorter=order)]\n")]),
    ('additional parameters attached in sorted order while the headers list them in dictionary order', [(FI, "        for par in additional:\n", "        for par in sorted(additional):\n")]),
    ('best value taken from the first fit with a defined value', [(WR, "(np.nanmin(info.av), info.av[0], np.nanmax(info.av))", "(np.nanmin(info.av), info.av[~np.isnan(info.av)][0], np.nanmax(info.av))")]),
    ('t.sort removed in write_parameters', [(WP, "    t.sort('MODEL_NAME')\n", "")]),
    ('strip+sort removed in extract_parameters (D9 reverted)', [(EP, "    t['MODEL_NAME'] = np.char.strip(t['MODEL_NAME'])\n    t.sort('MODEL_NAME')\n", "")]),
    ('nanmin <-> nanmax', [(WR, "(np.nanmin(info.av), info.av[0], np.nanmax(info.av))", "(np.nanmax(info.av), info.av[0], np.nanmin(info.av))")]),
    ('best taken from the last fit', [(WR, "(np.nanmin(tsorted[par]), tsorted[par][0], np.nanmax(tsorted[par]))", "(np.nanmin(tsorted[par]), tsorted[par][-1], np.nanmax(tsorted[par]))")]),
    ('parameter row off by one', [(WP, "fout.write('%10.3e ' % (tsorted[par][fit_id]))", "fout.write('%10.3e ' % (tsorted[par][fit_id - 1]))")]),
    ('post-check removed', [(FI, "        if not np.all(self.model_name == table_sorted['MODEL_NAME']):\n            raise Exception(\"Parameter file sorting failed\")\n", "")]),
    ('additional keyed by position', [(FI, "table_sorted[par][i] = additional[par][name.strip()]", "table_sorted[par][i] = list(additional[par].values())[i]")]),
    ('np.in1d (D1 reverted)', [(FI, "subset = np.isin(input_table['MODEL_NAME'], self.model_name)", "subset = np.in1d(input_table['MODEL_NAME'], self.model_name)")]),
    ('rank computed from chi2', [(FI, "index = np.argsort(np.argsort(self.model_name))", "index = np.argsort(np.argsort(self.chi2))")]),
    ('single argsort', [(FI, "index = np.argsort(np.argsort(self.model_name))", "index = np.argsort(self.model_name)")]),
    ('membership the wrong way round', [(FI, "subset = np.isin(input_table['MODEL_NAME'], self.model_name)", "subset = np.isin(self.model_name, input_table['MODEL_NAME'])")]),
    ('table sorted by another column in 1-D plots', [(P1, "    t.sort('MODEL_NAME')\n", "    t.sort(parameter)\n")]),
    ('range of chi2 uses av', [(WR, "(np.nanmin(info.chi2), info.chi2[0], np.nanmax(info.chi2))", "(np.nanmin(info.chi2), info.chi2[0], np.nanmax(info.av))")]),
    ('model name of the best fit on every row', [(WP, "fout.write('%30s ' % info.model_name[fit_id])", "fout.write('%30s ' % info.model_name[0])")]),
    ('n_data from n_wav', [(WR, 'fout.write("%10i " % info.source.n_data)', 'fout.write("%10i " % info.source.n_wav)')]),
    ('extract uses a different row for parameters', [(EP, "row = tsorted[i]", "row = tsorted[info.model_id[i]]")]),
    ('list branch broken (D3 reverted)', [(FI, "            self._fits = fits\n\n            for info in self._fits[1:]:\n                if info.meta != self._fits[0].meta:\n                    raise ValueError(\"The meta property of all FitInfo instances should match\")\n",
                                          "            for info in self._fits[1:]:\n                if info.meta != self._fits[0].meta:\n                    raise ValueError(\"The meta property of all FitInfo instances should match\")\n\n            self._fits = fits\n")]),
]
MUST_SILENT = [
    ('undefined values dropped for the minimum and the maximum only', [('sedfitter/write_parameter_ranges.py', "                fout.write('%10.3e %10.3e %10.3e ' % (np.nanmin(tsorted[par]), tsorted[par][0], np.nanmax(tsorted[par])))\n", "                values = tsorted[par][~np.isnan(tsorted[par])]\n                if len(values) == 0:\n                    values = tsorted[par]\n                fout.write('%10.3e %10.3e %10.3e ' % (np.min(values), tsorted[par][0], np.max(values)))\n")]),
    ('additional parameters looked up for all rows at once, through the sorting permutation', [('sedfitter/fit_info.py', "            table_sorted[par] = np.zeros(len(table_sorted), dtype=float)\n            for i, name in enumerate(table_sorted['MODEL_NAME']):\n                table_sorted[par][i] = additional[par][name.strip()]\n", "            names = np.char.strip(table_sorted['MODEL_NAME'])\n            keys = np.array(list(additional[par].keys()))\n            values = np.array(list(additional[par].values()), dtype=float)\n            order = np.argsort(keys)\n            table_sorted[par] = values[order[np.searchsorted(keys, names, sorter=order)]]\n")]),
    ('range minimum as the minimum of the defined values', [(WR, "(np.nanmin(info.av), info.av[0], np.nanmax(info.av))", "(info.av[~np.isnan(info.av)].min(), info.av[0], np.nanmax(info.av))")]),
    ('rank by scattering arange through the sorting permutation', [(FI, "index = np.argsort(np.argsort(self.model_name))", "by_name = np.argsort(self.model_name)\n        index = np.empty(len(by_name), dtype=np.intp)\n        index[by_name] = np.arange(len(by_name), dtype=np.intp)")]),
    ('rows picked by position instead of by mask', [(FI, "table_subset = input_table[subset]", "table_subset = input_table[np.flatnonzero(subset)]")]),
    ('additional column built by a comprehension', [(FI, "            table_sorted[par] = np.zeros(len(table_sorted), dtype=float)\n            for i, name in enumerate(table_sorted['MODEL_NAME']):\n                table_sorted[par][i] = additional[par][name.strip()]\n", "            table_sorted[par] = np.array([additional[par][name.strip()] for name in table_sorted['MODEL_NAME']], dtype=float)\n")]),
    ('one row written through join', [(EP, 'fout.write(basic + pars + "\\n")', 'fout.write("".join([basic, pars, "\\n"]))')]),
    ('rank via a temporary', [(FI, "index = np.argsort(np.argsort(self.model_name))", "first = np.argsort(self.model_name)\n        index = np.argsort(first)")]),
    ('subset inlined', [(FI, "        table_subset = input_table[subset]\n        index = np.argsort(np.argsort(self.model_name))\n        table_sorted = table_subset[index]", "        index = np.argsort(np.argsort(self.model_name))\n        table_sorted = input_table[subset][index]")]),
]


def thorough(ctx):
    from .. import selftest
    selftest.run(ctx, MUST_FIRE, MUST_SILENT)
