"""C08 A planted model is recovered through the whole pipeline."""
from .. import alg, convmodel, readers, fitsmodel
from ..alg import Poly, P, B, sym, mk_fn
from ..interp import Arr, Obj, Unk, GenList
from ..fitmodel import loc, compare
from ..rules import where
from ..loader import AnalysisError
from . import common, c04, c07, c09

EXPLANATION = (
    "Decides only the cross-module part of C08: the model name is the join key at every hop and the chain is alive. KEY-THREAD, six hops, each decided on the current source: "
    "(1) SED header MODEL / cube MODEL_NAMES <-> SED.name / cube.names (writer/reader agreement) and row m of every convolved-flux table carries the name and the fluxes of the same "
    "SED, re-ordered to the parameter table by name with a raising post-check; (2) Models.names == strip(names of the convolved file) on the model axis of Models.fluxes; (3) "
    "FitInfo.model_name == Models.names before the single chi^2 permutation that is applied to every per-fit array; (4) FitInfo.filter_table selects and re-indexes parameter rows "
    "by MODEL_NAME with a raising post-check, on a table that every caller has stripped and sorted by name; (5) write_parameters prints info.* and the parameter row at the same "
    "index; (6) the pickled record carries model_name with the other per-fit arrays. (API-1/2) every external library name and keyword literal used by the modules on the chain "
    "convolve_model_dir -> Models.read -> Models.fit -> FitInfo.sort/keep -> FitInfoFile -> filter_table -> write_parameters exists in the installed environment.")
NOT_DECIDED = ["that chi^2 ~ 0, A_V ~ A_V0, scale ~ log10 d0 and that the planted model ranks first: numerical recovery over all non-degenerate packages; no static argument in reach bounds it "
               "(the formula clauses it rests on are decided under C01, C02 and C06)"]
ASSUMPTIONS = ["model names are unique within a package"]
TRUSTED = ["python ast", "sedlint E4/E5", "the installed numpy/astropy/scipy as the reference for API existence"]
MIN = {'PERM-8': 12, 'PERM-3': 4, 'PERM-1': 6, 'PERM-7': 2, 'PERM-9': 3, 'AGREE-6': 5, 'AGREE-1': 7, 'API-1': 12, 'API-2': 1}
LEVEL_TEXT = ("Static decision of the identity-threading and liveness clauses only (the model name is the join key at each of six hops; every library name on the chain exists). The "
              "numerical recovery of a planted model is explicitly not claimed: it cannot be bounded statically.")
TECHNIQUE = 'static analysis: composition of key-threading obligations (value numbering, writer/reader tables, typestate at call sites) and an external-API liveness resolver'

CHAIN_MODULES = ['convolve.convolve', 'convolve.monochromatic', 'models', 'fit', 'fit_info', 'write_parameters', 'source.source', 'convolved_fluxes.convolved_fluxes', 'sed.sed', 'sed.cube',
                 'sed.helpers', 'filter.filter', 'utils.integrate', 'utils.interpolate', 'utils.misc', 'utils.io', 'utils.parfile', 'utils.validator', 'fitting_routines', 'extinction.extinction']


def run(ctx):
    from . import c14
    c14.check_get_av(ctx)        # the A_V reported is in units of the law normalised at 0.55 micron, whatever unit the law is tabulated in
    from . import c06
    c06.check_rebin_cache(ctx)   # every model is convolved with the filters re-binned onto its own spectral grid
    repo = ctx.repo
    # hop 1: names <-> files, rows of the convolved tables
    from .. import roundtrip
    d_sed, d_cube, d_conv = roundtrip.check_sed(ctx, 'PERM-8', 'PERM-8'), roundtrip.check_cube(ctx, 'PERM-8', 'PERM-8'), roundtrip.check_conv(ctx, 'PERM-8')
    if not (d_sed and d_cube and d_conv):
        sus = roundtrip.SuspectCtx(ctx, 'the round trip was not decided by interpretation and the syntactic rule, which knows one spelling only, reports')
        try:
            if not d_sed:
                sw, sr = repo.func('sed.sed', 'SED.write'), repo.func('sed.sed', 'SED.read')
                fitsmodel.check_pair(sus, 'PERM-8', sw, sr, {'name': 'name'}, where)
            if not d_cube:
                cw, cr = repo.func('sed.cube', 'BaseCube.write'), repo.func('sed.cube', 'BaseCube.read')
                fitsmodel.check_pair(sus, 'PERM-8', cw, cr, {'names': 'names'}, where)
            if not d_conv:
                fw, fr = repo.func('convolved_fluxes.convolved_fluxes', 'ConvolvedFluxes.write'), repo.func('convolved_fluxes.convolved_fluxes', 'ConvolvedFluxes.read')
                fitsmodel.check_pair(sus, 'PERM-8', fw, fr, {'model_names': 'model_names', 'flux': 'flux'}, where)
        except AnalysisError as e:
            ctx.undecided('PERM-8', 'syntactic fall-back', 'sedfitter/sed', 'structure not recognised: %s' % e)
    c07.check_drivers(ctx)
    c07.check_sort_to_match(ctx)
    c07.check_shared_buffers(ctx)
    # hop 2: Models.names
    for version in (1, 2):
        fi, I, h, m = readers.run_reader(repo, version)
        ctx.fn(fi)
        names = m.attrs.get('names') if isinstance(m, Obj) else Unk('reader')
        compare(ctx, 'PERM-8', 'Models (reader v%d) names' % version, loc(fi), names, mk_fn('strip', P(sym('cnames', 'm'))), ('m',), vocab={'cnames'}, fns={'strip'},
                detail_ok='Models.names == strip(names of the convolved file)')
        fl = m.attrs.get('_fluxes') if isinstance(m, Obj) else None
        if not isinstance(fl, Arr):
            ctx.undecided('PERM-8', 'Models (reader v%d) fluxes share the model axis with names' % version, loc(fi), 'fluxes not modelled: %r' % (fl,))
        else:
            ctx.expect(fl.dims[:1] == ('m',), 'PERM-8', 'Models (reader v%d) fluxes share the model axis with names' % version, loc(fi), 'fluxes axes %s' % (fl.dims,),
                       'fluxes axes %s' % (fl.dims,), 'model-axis')
    from . import c01, c02, c03
    c01.check_filter_dicts(ctx)
    # 'ranks m first with chi^2 ~ 0, reports A_V ~ A_V0 and scale ~ log10 d0': the kernels, both fitting modes and chi_squared itself (C01, C02, C03)
    c02.check_readers_distance_independent(ctx)
    c02.check_readers_two_filters(ctx)
    c01.check_kernels(ctx)
    c01.check_fit_2d(ctx)
    c02.check_fit_3d(ctx)
    c03.check_chi(ctx, c03.check_transform(ctx))
    # hop 3: FitInfo.model_name and the single permutation
    c04.check_fit_rows(ctx)
    c04.check_sort(ctx)
    # hop 4/5: parameter lookup by name
    c09.check_filter_table(ctx)
    c09.check_callers(ctx)
    c09.check_rows(ctx)
    # hop 6: record state
    from ..staterules import state_roundtrip
    state_roundtrip(ctx, repo.cls('fit_info', 'FitInfo'), exclude=('meta',))
    # a fitter gives the planted answer for every source, not only the first: no state carried between fits; distances in the requested unit
    from . import c11
    c11.check_purity(ctx)
    c04.check_alias_and_scale(ctx)
    # liveness
    common.api_rule(ctx, CHAIN_MODULES, min_chains=300)
    common.api_literal_rule(ctx, ['sed.helpers'], min_sites=1)


MUST_FIRE = [
    ('model_name sorted independently', [('sedfitter/models.py', "info.model_name = self.names", "info.model_name = np.sort(self.names)")]),
    ('names taken unstripped from another table', [('sedfitter/models.py', "            m.names = np.char.strip(conv.model_names)\n        except:\n            m.names = np.array([x.strip() for x in conv.model_names], dtype=conv.model_names.dtype)\n\n        m.fluxes = model_fluxes\n\n        if extended is not None:\n            m.extended = extended\n\n        return m\n\n    @classmethod\n    def _read_version_2",
                                                    "            m.names = np.char.strip(conv.model_names)[::-1]\n        except:\n            m.names = np.array([x.strip() for x in conv.model_names], dtype=conv.model_names.dtype)\n\n        m.fluxes = model_fluxes\n\n        if extended is not None:\n            m.extended = extended\n\n        return m\n\n    @classmethod\n    def _read_version_2")]),
    ('filter_table matching on a different column', [('sedfitter/fit_info.py', "subset = np.isin(input_table['MODEL_NAME'], self.model_name)", "subset = np.isin(input_table['MODEL_NAME'], self.model_id)")]),
    ('an unresolved numpy name on the chain', [('sedfitter/fit_info.py', "order = np.argsort(self.chi2)", "order = np.argsort(self.chi2) if not hasattr(np, 'x') else np.in1d(1, 2)")]),
    ('convolved rows not re-ordered to the parameter table', [('sedfitter/convolve/convolve.py', "        fluxes[i].sort_to_match(par_table['MODEL_NAME'])\n", "")]),
    ('SED name read from another keyword', [('sedfitter/sed/sed.py', "sed.name = hdulist[0].header['MODEL']", "sed.name = hdulist[0].header['NAME']")]),
    ('parameter row shifted', [('sedfitter/write_parameters.py', "fout.write('%10.3e ' % (tsorted[par][fit_id]))", "fout.write('%10.3e ' % (tsorted[par][fit_id - 1]))")]),
    ('record loses model_name', [('sedfitter/fit_info.py', "            'model_name': self.model_name,\n", "")]),
    ('parse_strict=False', [('sedfitter/sed/helpers.py', "parse_strict='silent'", "parse_strict=False")]),
]
MUST_SILENT = [
    ('rank via a temporary', [('sedfitter/fit_info.py', "index = np.argsort(np.argsort(self.model_name))", "first = np.argsort(self.model_name)\n        index = np.argsort(first)")]),
]


def thorough(ctx):
    from .. import selftest
    selftest.run(ctx, MUST_FIRE, MUST_SILENT)
