"""C13 Aperture interpolation: exact at tabulated radii, linear between, clamped above."""
import ast
from fractions import Fraction

from .. import alg
from ..alg import Poly, P, B, C, sym, lt, mk_fn
from ..interp import Interp, Hooks, Arr, Obj, Unk, symarr, scalar, num, _Interp1d, decide_with, count_atom
from ..fitmodel import loc, compare
from ..astutil import up, walk_local, stores, chain, calls, kw
from ..rules import where
from ..loader import AnalysisError

M, A, D, N = 'm', 'a', 'd', 'n'
EXPLANATION = (
    "Value numbering of ConvolvedFluxes.interpolate, SED.interpolate and SED.interpolate_variable with quantities as physical values and scipy's interp1d as an "
    "uninterpreted linear-interpolation atom over bare numbers (scipy drops units): (CFG-7) what is interpolated is the request with every radius above the table "
    "maximum replaced by the maximum (k*max with the recorded constant k = 0.999 in the plotting variant); in ConvolvedFluxes.interpolate the clamp is stored through "
    "the argument while the returned object's apertures are a view of it, and the analysis follows that alias (a copy instead of the view is reported); a raise guards "
    "radii below the table minimum; (AXIS) the table is interpolated along its aperture axis with scipy's defaults (linear, exact at knots, error outside - no kind=, "
    "fill_value=, bounds_error=False); flux from flux and error from error; (UNIT-1) abscissa and query reach scipy as numbers in the same unit, and no comparison mixes a "
    "bare number with a dimensional quantity; model names and central wavelength are copied unchanged; the single-aperture branch repeats the only column with one row per model.")
NOT_DECIDED = ["linearity and knot-exactness of scipy.interpolate.interp1d (library)"]
ASSUMPTIONS = ["interp1d(x, y)(q) with default options is the piecewise-linear interpolant, raising outside [x0, xN]", "numpy basic slices are views"]
TRUSTED = ["python ast", "sedlint E4/E5", "scipy interp1d defaults"]
MIN = {'UNIT-2': 3, 'CFG-7': 8, 'UNIT-1': 3, 'AXIS': 1, 'PERM-10': 1}       # AXIS: one obligation per interp1d call the code makes, plus the variable-aperture one (a hand-written interpolation has none of the former)
TECHNIQUE = 'static analysis: AST value numbering with alias tracking of in-place stores and unit tags; uninterpreted linear-interpolation atom'

VOCAB = {'q', 'cap', 'flux', 'err', 'names', 'cw', 'wav', 'fw'}
FNS = {'lininterp'}


class H(Hooks):
    def __init__(self, single=False):
        self.single = single
        self.i1d = []
        self.npinterp = []

    def decide(self, interp, test, env, mod):
        try:
            v = interp.expr(test, dict(env), mod)
        except Exception:
            return None
        if isinstance(v, Arr) and v.ndim == 0 and not v.poly.is_const():
            syms, fns = alg.leaf_syms(v.poly)
            if not syms and fns <= {'len'}:
                # number of tabulated apertures: one / several, by configuration
                return decide_with(interp, test, env, mod, consts={count_atom(A): 1 if self.single else 10 ** 6})
            # "if any request exceeds the table maximum": take the clamp branch (a no-op when nothing exceeds it)
            anys = alg.contains_atom(v.poly, lambda a: a[0] == 'fn' and a[1] == 'any')
            if anys and v.poly.is_monomial() and 'max' in fns and 'min' not in fns and not (fns - {'any', 'max'} - {'value', 'unit'}):
                return True
        return None

    def opaque(self, interp, fi, args, kwargs, node):
        if fi.name in ('validate_array', 'validate_scalar'):
            return args[1] if len(args) > 1 else kwargs.get('value')
        return NotImplemented

    def external(self, interp, name, args, kwargs, node, mod):
        if name.endswith('interp1d'):
            r = interp.libcall(name, args, kwargs, node, mod)
            self.i1d.append((args, kwargs, r, node))
            return r
        if name in ('numpy.interp',):
            self.npinterp.append((args, kwargs, node))
        return NotImplemented


def _clamp_constant(fv):
    for t, v, st in stores(fv.node):
        if isinstance(t, ast.Subscript) and isinstance(t.value, ast.Name) and len(fv.params) > 2 and t.value.id == fv.params[2] and isinstance(t.slice, ast.Compare) \
                and isinstance(t.slice.ops[0], ast.Gt) and 'max()' in up(v):
            k = 1.0
            if isinstance(v, ast.BinOp) and isinstance(v.op, ast.Mult):
                for side in (v.left, v.right):
                    if isinstance(side, ast.Constant) and isinstance(side.value, (int, float)):
                        k = float(side.value)
            return k
    return None


def clamp_ref(q, mx, k=1):
    return q + lt(mx, q) * (k * mx - q)


def guards(I, kind):
    return [a for a in I.assumed if a[4] == 'raise-guard' and kind in a[2]]


def refuses_below(I, query_candidates, table_candidates, label, qlabel):
    """is there a raise-guard whose precondition is "no request is below the table minimum" (compared as normal forms; the request and the minimum may be
    expressed in any of the candidate forms: clamped or not, as physical values or as numbers in a unit)"""
    from ..fitmodel import guard_requires
    cands = []
    for qv_ in query_candidates:
        for tab in table_candidates:
            mn = mk_fn('min', B(label, tab))
            cands.append(alg.b_not(mk_fn('any', B(qlabel, lt(qv_, mn)))))
    return guard_requires(I, cands)


def other_refusals(I, query_candidates, table_candidates, label, qlabel, qname='q'):
    """raise-guards whose test reads the requested radii and that are not the documented refusal (a request below the table minimum): the property promises
    a value for every other request, in any order, with repeats"""
    cands = []
    for qv_ in query_candidates:
        for tab in table_candidates:
            mn = mk_fn('min', B(label, tab))
            cands.append(alg.b_not(mk_fn('any', B(qlabel, lt(qv_, mn)))))
    out = []
    for g in I.assumed:
        if g[4] != 'raise-guard' or len(g) < 6 or not isinstance(g[5], Arr) or g[5].mask is not None:
            continue
        if qname not in {str(x_).split('@')[0] for x_ in alg.leaf_syms(g[5].poly)[0]}:
            continue
        pre = g[5].poly if g[3] else alg.b_not(g[5].poly)
        if g[5].ndim == 0 and any(alg.is_zero(pre - c)[0] for c in cands):
            continue
        out.append((g, pre))
    return out


def judge_refusals(ctx, rule, inst, where_, extra, table, label, n=3, outside=False):
    """every other raise guarded by a test on the requested radii is tried on requests the look-up has to serve (knots.guard_verdict)"""
    from .. import knots
    if not extra:
        ctx.ok(rule, inst, where_, 'no other raise is guarded by a test on the requested radii (setters and validators included)')
        return
    for g, pre in extra:
        verdict, what = knots.guard_verdict(pre, 'q', table, label, n, outside)
        txt = '%s (%s:%s%s)' % (g[2] if not g[3] else 'not (%s)' % g[2], g[0], g[1], (', reached through the %s setter' % g[6].split(':')[1]) if len(g) > 6 else '')
        if verdict == 'refuses':
            ctx.violation(rule, inst, where_, 'requests are also refused when %s: %s is refused' % (txt, what), 'other-refusal')
        elif verdict == 'accepts':
            ctx.ok(rule, inst, where_, 'the raise guarded by %s refuses none of: requests on one tabulated value, in decreasing order, in increasing order' % txt)
        else:
            ctx.undecided(rule, inst, where_, 'a raise is guarded by %s: %s' % (txt, what))


def interp_pairing(p, label, xname, fname):
    """for every interpolation atom of ``p`` whose table runs over ``label``: the positions at which the abscissa reads the array ``xname`` and the
    positions at which the ordinate reads ``fname`` (the running position, or the index of a gather).  -> None when they agree everywhere, else a pair of
    descriptions (a table whose two columns are taken in different orders)"""
    from ..knots import _all_atoms

    def accesses(q, name):
        out = set()
        for a in _all_atoms(q):
            if a[0] == 'fn' and a[1] == 'at' and len(a) == 4 and a[2][0] == 'B' and a[3][0] == 'P':
                inner = Poly.from_key(a[2][2])
                if any(b[0] == 'sym' and str(b[1]).split('@')[0] == name and a[2][1] in b[2] for b in _all_atoms(inner)):
                    out.add(('at', a[3][1]))
        # a direct (un-gathered) read: the symbol over the table's own label, outside any gather of it
        def direct(q_, bound):
            for a in q_.atoms():
                if a[0] == 'sym' and str(a[1]).split('@')[0] == name and label in a[2] and not bound:
                    return True
                if a[0] == 'fn':
                    for x in a[2:]:
                        if x[0] == 'P' and direct(Poly.from_key(x[1]), bound):
                            return True
                        if x[0] == 'B' and direct(Poly.from_key(x[2]), bound or x[1] == label):
                            return True
                elif a[0] == 'pow' and direct(Poly.from_key(a[1]), bound):
                    return True
                elif a[0] in ('ind',) and direct(Poly.from_key(a[2]), bound):
                    return True
            return False
        if direct(q, False):
            out.add(('id',))
        return out
    for a in _all_atoms(p):
        if a[0] == 'fn' and a[1] in ('interp', 'lininterp') and len(a) >= 5 and a[3][0] == 'B' and a[4][0] == 'B' and a[3][1] == label and a[4][1] == label:
            ax, af = accesses(Poly.from_key(a[3][2]), xname), accesses(Poly.from_key(a[4][2]), fname)
            if ax and af and ax != af:
                def txt(s_):
                    return ' / '.join('their own position' if x[0] == 'id' else 'position %s' % alg.show(Poly.from_key(x[1]), 50) for x in sorted(s_, key=str))
                return txt(ax), txt(af)
    return None


def roundtrip_findings(ctx, h, fi, inst):
    """(UNIT-2) the clamp bound must reach the bounds-checked look-up without a unit round trip: table maximum -> request's unit (on assignment into the
    request) -> table's unit (.to before the look-up) does not return the same floating-point number, so a request beyond the table can land one ulp above
    the maximum and be refused instead of clamped"""
    trips = [t for args, kwargs, r, node in h.i1d if isinstance(r, _Interp1d) for t in r.roundtrips]
    if trips:
        a_, b_ = trips[0]
        ctx.violation('UNIT-2', inst, loc(fi, b_[4] or a_[4]), 'the bound %s is stored into the request in unit %s (line %s, converted from %s) and the request is converted back to %s (line %s) before '
                      'the bounds-checked interpolation: the round trip is not exact in floating point, so a clamped request can exceed the table by one ulp and raise'
                      % (a_[3], a_[2], a_[4], a_[1], b_[2], b_[4]), 'unit-roundtrip')
    else:
        ctx.ok('UNIT-2', inst, loc(fi), 'the clamped request reaches interp1d without a unit round trip of the bound')


def unit_findings(ctx, I, fi, inst):
    bad = [f for f in I.findings if f.kind == 'unit-kind']
    ctx.expect(not bad, 'UNIT-1', inst, loc(fi, bad[0].line if bad else None), 'every comparison is between numbers of the same kind',
               bad[0].msg if bad else '', 'unit-kind')


def check_cf_interpolate(ctx):
    repo = ctx.repo
    U, mJy, au = sym('unit:U'), sym('unit:mJy'), sym('unit:au')
    # ---------------- ConvolvedFluxes.interpolate
    fi = ctx.fn(repo.func('convolved_fluxes.convolved_fluxes', 'ConvolvedFluxes.interpolate'))
    cls = repo.cls('convolved_fluxes.convolved_fluxes', 'ConvolvedFluxes')
    def mk():
        return Obj(cls, {'_model_names': symarr('names', (M,)), '_apertures': symarr('cap', (A,), unit=U), '_flux': symarr('flux', (M, A), unit=mJy),
                         '_error': symarr('err', (M, A), unit=sym('unit:Jy')), '_wavelength': scalar(sym('cw'), sym('unit:micron'))})
    h = H()
    I = Interp(repo, h)
    I.exact_le = True          # clamping makes requests *equal* to the table maximum: <= and < are kept apart
    out = I.call(fi, [symarr('q', (D,), unit=au)], selfv=mk())
    q, cap = sym('q', D), sym('cap', A)
    mx = mk_fn('max', B(A, cap))
    qc = clamp_ref(q, mx)
    where_ = loc(fi)
    if not isinstance(out, Obj):
        ctx.undecided('CFG-7', 'ConvolvedFluxes.interpolate', where_, 'result not modelled: %r' % (out,))
    else:
        from ..roundtrip import TrialCtx
        for attr, tab in (('_flux', sym('flux', M, A)), ('_error', sym('err', M, A))):
            ref = mk_fn('lininterp', P(qc / U), B(A, cap / U), B(A, tab))
            # side conditions: the table minimum is not above its maximum, and (the refusal below the table being a precondition, checked on its own) no request is below the minimum
            mn = mk_fn('min', B(A, cap))
            side = alg.Facts().assume_le(mn, mx).assume_le(mn, q)
            inst = 'ConvolvedFluxes.interpolate %s' % attr.lstrip('_')
            t = TrialCtx(ctx)
            compare(t, 'CFG-7', inst, where_, out.attrs.get(attr), ref, (M, D), side, vocab=VOCAB, fns=FNS, findings=[f for f in I.findings if f.kind == 'label-clash'],
                    detail_ok='linear interpolant of the %s table at min(request, table maximum), abscissa and query in the table\'s unit' % attr.lstrip('_'))
            if t.n_undecided and not t.n_violations and lookup_by_regions(ctx, 'CFG-7', inst, where_, fi, mk, attr, tab, cap):
                continue          # a look-up the whole-table comparison does not read (written by hand, say): decided on tables of two and three apertures, region by region
            t.commit()
        compare(ctx, 'CFG-7', 'ConvolvedFluxes.interpolate apertures of the result', where_, out.attrs.get('_apertures'), qc, (D,), vocab=VOCAB, fns=FNS, detail_ok='the (clamped) request')
        compare(ctx, 'CFG-7', 'ConvolvedFluxes.interpolate model names', where_, out.attrs.get('_model_names'), sym('names', M), (M,), vocab=VOCAB, fns=FNS, detail_ok='copied unchanged')
        compare(ctx, 'CFG-7', 'ConvolvedFluxes.interpolate central wavelength', where_, out.attrs.get('_wavelength'), sym('cw'), (), vocab=VOCAB, fns=FNS, detail_ok='copied unchanged')
    okg, seen = refuses_below(I, [q, qc], [cap], A, D)
    ctx.expect(okg, 'CFG-7', 'ConvolvedFluxes.interpolate refuses radii below the table', where_, 'raises when any request < table minimum',
               'no raise guards radii below the smallest aperture (guards: %s)' % seen, 'too-small')
    judge_refusals(ctx, 'CFG-7', 'ConvolvedFluxes.interpolate refuses nothing else', where_, other_refusals(I, [q, qc], [cap], A, D), cap, A)
    unit_findings(ctx, I, fi, 'ConvolvedFluxes.interpolate comparisons')
    roundtrip_findings(ctx, h, fi, 'ConvolvedFluxes.interpolate clamp bound and look-up in one unit')
    for args, kwargs, r, node in h.i1d:
        opts_ = {k_: v_ for k_, v_ in kwargs.items() if k_ not in ('axis', 'assume_sorted', 'copy')}          # (the order of the table is part of the value compared above)
        ctx.expect(not opts_, 'AXIS', 'ConvolvedFluxes.interpolate interp1d options', loc(fi, node.lineno), 'scipy defaults: linear, exact at knots, error outside',
                   'non-default options %s change the interpolant or silence out-of-range requests' % sorted(opts_), 'interp1d-options')
    # single aperture: interpreted with the table holding one aperture; every request (inside, above or below) gets the one tabulated value
    hs = H(single=True)
    Is = Interp(repo, hs)
    Is.axis_len[A] = 1
    outs = Is.call(fi, [symarr('q', (D,), unit=au)], selfv=mk())
    if not isinstance(outs, Obj):
        ctx.undecided('CFG-7', 'ConvolvedFluxes.interpolate single-aperture repeat', where_, 'result not modelled: %r' % (outs,))
    else:
        for attr, tab in (('_flux', sym('flux', M, A)), ('_error', sym('err', M, A))):
            compare(ctx, 'CFG-7', 'ConvolvedFluxes.interpolate single-aperture %s' % attr.lstrip('_'), where_, outs.attrs.get(attr), mk_fn('at', B(A, tab), P(Poly())), (M, D), vocab=VOCAB, fns=FNS,
                    findings=[f for f in Is.findings if f.kind == 'label-clash'], detail_ok='every requested radius gets the single tabulated %s of the model' % attr.lstrip('_'))
        gs_q = other_refusals(Is, [q], [], A, D)          # tests on the requested radii: tried on requests the look-up has to serve
        gs = [g for g in Is.assumed if g[4] == 'raise-guard' and (len(g) < 6 or not isinstance(g[5], Arr))]
        if gs or not gs_q:
            ctx.expect(not gs, 'CFG-7', 'ConvolvedFluxes.interpolate single-aperture table accepts every radius', where_, 'no request is refused when the table has one aperture',
                       'a single-aperture table refuses requests: raise guarded by %s' % (gs[0][2] if gs else ''), 'single-refuses')
        else:
            judge_refusals(ctx, 'CFG-7', 'ConvolvedFluxes.interpolate single-aperture table accepts every radius', where_, gs_q, cap, A, 1, True)


def lookup_by_regions(ctx, rule, inst, where_, fi, mk, attr, tab, cap):
    """ConvolvedFluxes.interpolate on tables of two and three apertures (see regions_verdict)"""
    au = sym('unit:au')

    def run_(I):
        out = I.call(fi, [symarr('q', (D,), unit=au)], selfv=mk())
        return out.attrs.get(attr) if isinstance(out, Obj) else None
    return regions_verdict(ctx, rule, inst, where_, run_, sym('q', D), cap, tab, (M, D))


def regions_verdict(ctx, rule, inst, where_, run_, q, knots_p, tab, dims, hooks=None):
    """the interpolation decided on tables of two and three increasing apertures: on every knot, strictly between neighbours and above the last knot the
    value is compared with the definition (knots.py); True when every region of every table size was decided (the verdicts are then recorded)"""
    from .. import knots
    verdicts = []
    for n in (2, 3):
        I = Interp(ctx.repo, (hooks or H)())
        I.axis_len[A] = n
        I.exact_le = True          # a request may lie exactly on a tabulated aperture: <= and < are kept apart
        try:
            v = run_(I)
        except Exception:
            return False
        if not isinstance(v, Arr) or v.mask is not None or tuple(v.dims) != tuple(dims) or I.lost or [f for f in I.findings if f.kind == 'label-clash']:
            return False
        rs = knots.decide_lookup(v.poly, q, knots_p, tab, A, n, qlabel=D)
        if any(r[1] is None for r in rs):
            return False
        verdicts.append((n, rs))
    for n, rs in verdicts:
        bad = [(name, det) for name, okk, det in rs if not okk]
        ctx.expect(not bad, rule, '%s, table of %d apertures, request %s' % (inst, n, ' / '.join(name for name, _, _ in rs)), where_,
                   'the tabulated value on every aperture, the chord between neighbours, the last value above the table',
                   '; '.join('request %s: %s' % b for b in bad[:2]), 'lookup-regions')
    return True


def run(ctx):
    check_cf_interpolate(ctx)
    check_sed_interpolate(ctx)
    check_variable(ctx)


def check_sed_interpolate(ctx):
    """SED.interpolate (requests as bare numbers and as quantities) and the single-aperture tables of SED.interpolate / interpolate_variable"""
    repo = ctx.repo
    U, mJy, au = sym('unit:U'), sym('unit:mJy'), sym('unit:au')
    q, cap = sym('q', D), sym('cap', A)
    # ---------------- SED.interpolate
    fs = ctx.fn(repo.func('sed.sed', 'SED.interpolate'))
    scls = repo.cls('sed.sed', 'SED')
    def mks():
        return Obj(scls, {'_apertures': symarr('cap', (A,), unit=sym('unit:cm')), '_flux': symarr('flux', (A, N), unit=mJy), '_error': symarr('err', (A, N), unit=mJy),
                          '_wav': symarr('wav', (N,), unit=sym('unit:micron')), '_nu': None})
    for qunit, tag in ((num(1), 'bare numbers in AU'), (sym('unit:pc'), 'a quantity in another length unit')):
        h = H()
        I = Interp(repo, h)
        out = I.call(fs, [symarr('q', (D,), unit=qunit)], selfv=mks())
        qn = q if qunit == num(1) else q / au
        capn = cap / au
        mxn = mk_fn('max', B(A, capn))
        ref = mk_fn('lininterp', P(clamp_ref(qn, mxn)), B(A, capn), B(A, sym('flux', A, N) / mJy))
        from ..roundtrip import TrialCtx
        t = TrialCtx(ctx)
        compare(t, 'CFG-7', 'SED.interpolate, request given as %s' % tag, loc(fs), out, ref, (N, D), vocab=VOCAB, fns=FNS, findings=[f for f in I.findings if f.kind == 'label-clash'],
                detail_ok='linear interpolant at min(request, maximum) with abscissa and query both in AU')
        if not (t.n_undecided and not t.n_violations and regions_verdict(ctx, 'CFG-7', 'SED.interpolate, request given as %s' % tag, loc(fs),
                                                                         lambda I_, qunit=qunit: I_.call(fs, [symarr('q', (D,), unit=qunit)], selfv=mks()), qn, capn, sym('flux', A, N) / mJy, (N, D))):
            t.commit()
        unit_findings(ctx, I, fs, 'SED.interpolate comparisons, request given as %s' % tag)
        roundtrip_findings(ctx, h, fs, 'SED.interpolate clamp bound and look-up in one unit (%s)' % tag)
        okg, seen = refuses_below(I, [qn, clamp_ref(qn, mxn), qn * au, clamp_ref(qn, mxn) * au], [capn, cap], A, D)
        ctx.expect(okg, 'CFG-7', 'SED.interpolate refuses radii below the table (%s)' % tag, loc(fs), 'raises when any request < table minimum',
                   'no raise guards radii below the smallest aperture (guards: %s)' % seen, 'too-small')
        for args, kwargs, r, node in h.i1d:
            opts_ = {k_: v_ for k_, v_ in kwargs.items() if k_ not in ('axis', 'assume_sorted', 'copy')}          # (the order of the table is part of the value compared above)        # the axis is part of the interpolant decided above; kind / bounds / fill change it
            ctx.expect(not opts_, 'AXIS', 'SED.interpolate interp1d options (%s)' % tag, loc(fs, node.lineno), 'scipy defaults', 'non-default options %s' % sorted(opts_), 'interp1d-options')

    # single aperture: every requested radius gets the one tabulated flux of each wavelength, and nothing is refused
    hs = H(single=True)
    Is = Interp(repo, hs)
    Is.axis_len[A] = 1
    outs = Is.call(fs, [symarr('q', (D,), unit=num(1))], selfv=mks())
    from ..roundtrip import TrialCtx
    t = TrialCtx(ctx)
    compare(t, 'CFG-7', 'SED.interpolate single-aperture table', loc(fs), outs, mk_fn('at', B(A, sym('flux', A, N)), P(Poly())), (N, D), vocab=VOCAB, fns=FNS,
            findings=[f for f in Is.findings if f.kind == 'label-clash'], detail_ok='every requested radius gets the single tabulated flux of each wavelength')
    if not (t.n_undecided and not t.n_violations and single_aperture_concrete(ctx, fs, mks)):
        t.commit()
    Iv = Interp(repo, H(single=True))
    Iv.axis_len[A] = 1
    outv = Iv.call(ctx.fn(repo.func('sed.sed', 'SED.interpolate_variable')), [symarr('fw', ('w',), unit=num(1)), symarr('q', ('w',), unit=num(1))], selfv=mks())
    compare(ctx, 'CFG-7', 'interpolate_variable single-aperture table', loc(fs), outv, mk_fn('at', B(A, sym('flux', A, N)), P(Poly())), (N,), vocab=VOCAB, fns=FNS,
            findings=[f for f in Iv.findings if f.kind == 'label-clash'], detail_ok='the single tabulated flux of each wavelength')


def single_aperture_concrete(ctx, fs, mks):
    """SED.interpolate on a one-aperture table of 3 wavelengths asked for 2 radii: element [n, d] of the result must be the tabulated flux of wavelength n
    (a repeat followed by a reshape is then written out position by position).  True when decided (the verdict is recorded)."""
    I = Interp(ctx.repo, H(single=True))
    I.axis_len[A], I.axis_len[N], I.axis_len[D] = 1, 3, 2
    try:
        out = I.call(fs, [symarr('q', (D,), unit=num(1))], selfv=mks())
    except Exception:
        return False
    if not isinstance(out, Arr) or out.mask is not None or out.ndim != 2 or I.lost or any(d_ is None or I.axis_len.get(d_) != n_ for d_, n_ in zip(out.dims, (3, 2))):
        return False
    mJy = sym('unit:mJy')
    bad = []
    for n_ in range(3):
        for d_ in range(2):
            got = alg.index_at(alg.index_at(out.poly, out.dims[0], Poly.const(n_)), out.dims[1], Poly.const(d_))
            want = alg.index_at(alg.index_at(sym('flux', A, N), A, Poly()), N, Poly.const(n_))
            if not (alg.is_zero(got - want)[0] or alg.is_zero(got - want / mJy)[0]):
                syms_, fns_ = alg.leaf_syms(got)
                if not (syms_ <= {'flux', 'unit:mJy'} and fns_ <= {'at'}):
                    return False
                bad.append('element [%d, %d] is %s, not the flux of wavelength %d' % (n_, d_, alg.show(got, 60), n_))
    ctx.expect(not bad, 'CFG-7', 'SED.interpolate single-aperture table (3 wavelengths, 2 requested radii, position by position)', loc(fs),
               'every requested radius gets the single tabulated flux of each wavelength', '; '.join(bad[:2]), 'single-aperture-scramble')
    return True


def variable_reference(k):
    """interpolate_variable as the property states it, for a clamp fraction k: flux[:, n] interpolated linearly (over apertures) at the aperture the log-log
    aperture(wavelength) curve through the filters gives at wavelength n, the curve held constant beyond the end filters; requests above the table maximum
    taken as k times the maximum"""
    from ..interp import _linear_fn
    mJy, au = sym('unit:mJy'), sym('unit:au')
    cap = sym('cap', A)
    fw, qv = sym('fw', 'w'), sym('q', 'w')
    capn = cap / au
    mxn = mk_fn('max', B(A, capn))
    order = alg.array_fn('argsort', 'w', fw)
    g = lambda p_: mk_fn('at', B('w', p_), P(order))
    qc_ = qv + lt(mxn, qv) * (k * mxn - qv)
    xs_, ys_ = alg.log10(g(fw)), alg.log10(g(qc_))
    lw = alg.log10(sym('wav', N) / sym('unit:micron'))
    val = lambda p_: mk_fn('value', P(p_))
    curve = _linear_fn('lininterp', lw, 'w', xs_, ys_, [C('bounds_error=False'), C('fill_value=Marker(numpy.nan)')])
    first = lambda p_: mk_fn('at', B('w', p_), P(Poly()))
    last = lambda p_: mk_fn('at', B('w', p_), P(Poly.const(-1)))
    ap1 = mk_fn('exp10', P(curve))
    ap2 = ap1 + lt(lw, first(xs_)) * (mk_fn('exp10', P(first(ys_))) - ap1)
    ap3 = ap2 + lt(last(xs_), lw) * (mk_fn('exp10', P(last(ys_))) - ap2)
    ref = _linear_fn('lininterp', ap3, A, capn, sym('flux', A, N) / mJy, [])
    return ref, alg.Facts().assume_le(first(xs_), last(xs_)), (qv, qc_, capn, cap, au)


expand_interp = alg.expand_interp


def increasing_apertures(p):
    """the table's apertures taken as stored in increasing order (C13 promises it): sorting them is then the identity"""
    key = ('fn', 'argsort', ('L', A), ('B', A, sym('cap', A).key()))
    return alg.rebuild(p, lambda a: Poly.atom(('fn', 'arange', ('L', A))) if a == key else None)


def _same(facts, diff, increasing=True):
    """is the difference zero - as it stands, or with the library's linear interpolation written out the way a hand-written one is (through searchsorted),
    for tables stored in increasing order when the property promises that"""
    if alg.is_zero(facts.simplify(diff))[0]:
        return True
    _, fns_ = alg.leaf_syms(diff)
    if 'searchsorted' in fns_ and 'lininterp' in fns_:
        try:
            d2 = alg.unfold_lininterp(diff)
            if increasing:
                d2 = increasing_apertures(d2)
            return alg.is_zero(facts.simplify(d2))[0]
        except RecursionError:
            return False
    return False


def check_variable(ctx, increasing=True):
    """The result of interpolate_variable is compared as a whole with the statement (for the clamp fraction the code uses, which must lie in [0.99, 1]).
    When that comparison is decided it covers the pairing of wavelengths and apertures, the interpolator's axis, the clamp and the diagonal; the
    piecewise rules (which look at how the code is written) run only when it is not, and may then only say undecided."""
    from ..roundtrip import SuspectCtx
    repo = ctx.repo
    mJy = sym('unit:mJy')
    scls = repo.cls('sed.sed', 'SED')
    fv = ctx.fn(repo.func('sed.sed', 'SED.interpolate_variable'))
    h = H()
    I = Interp(repo, h)
    obj = Obj(scls, {'_apertures': symarr('cap', (A,), unit=sym('unit:cm')), '_flux': symarr('flux', (A, N), unit=mJy), '_error': symarr('err', (A, N), unit=mJy),
                     '_wav': symarr('wav', (N,), unit=sym('unit:micron')), '_nu': None})
    outv = I.call(fv, [symarr('fw', ('w',), unit=num(1)), symarr('q', ('w',), unit=num(1))], selfv=obj)
    where_ = loc(fv)
    bad_axes = [f for f in I.findings if f.kind == 'label-clash']
    decided = False
    if isinstance(outv, Arr) and not bad_axes:
        unsorted = []
        outv = outv.with_(poly=expand_interp(outv.poly, unsorted))
        for xp in unsorted:
            syms, fns_ = alg.leaf_syms(xp)
            if {x for x in syms if not x.startswith('unit:')} <= {'fw'} and fns_ <= {'ln'}:
                ctx.violation('PERM-10', 'aperture(wavelength) interpolator', where_, 'np.interp needs an increasing abscissa but is given %s: the filter wavelengths in the order the user listed them, '
                              'so for filters not listed by increasing wavelength the aperture curve is wrong' % alg.show(xp, 120), 'unsorted-abscissa')
                return
        mis = interp_pairing(outv.poly, 'w', 'fw', 'q')
        if mis:
            ctx.violation('PERM-10', 'aperture(wavelength) interpolator', where_, 'the interpolation over the filters reads the wavelengths at %s and the apertures at %s: a filter\'s wavelength is '
                          'paired with another filter\'s aperture unless the filters are listed by increasing wavelength' % mis, 'pairing')
            return
        ks = sorted({c for c in alg.constants_in(outv.poly) if Fraction(99, 100) <= c < 1} | {Fraction(1), Fraction(999, 1000)}, reverse=True)
        hit = None
        for k in ks:
            ref, facts, parts = variable_reference(k)
            if tuple(outv.dims) == (N,) and outv.mask is None and _same(facts, outv.poly - ref, increasing):
                hit = (k, parts)
                break
        if hit is not None:
            k, (qv, qc_, capn, cap, au) = hit
            decided = True
            ctx.ok('CFG-7', 'interpolate_variable result', where_, 'flux[:, n] interpolated linearly at the aperture of the log-log aperture(wavelength) curve at wavelength n (curve held constant beyond the '
                   'end filters): the diagonal pairing; requests above the table maximum taken as %s x maximum' % k)
            ctx.ok('AXIS', 'interpolate_variable flux interpolator', where_, 'over the aperture axis of the flux table (follows from the result)')
            ctx.ok('PERM-10', 'aperture(wavelength) interpolator', where_, 'each filter wavelength paired with that filter\'s own aperture, on an increasing abscissa (follows from the result)')
            ctx.ok('CFG-7', 'interpolate_variable clamp', where_, 'radii above the table maximum are set to k*max with k = %s' % float(k))
            ctx.extra['clamp_constant_interpolate_variable'] = float(k)
            okg, seen = refuses_below(I, [qv, qc_, qv * au, qc_ * au], [capn, cap], A, 'w')
            ctx.expect(okg, 'CFG-7', 'interpolate_variable refuses radii below the table', where_, 'raises when any request < table minimum',
                       'no raise guards radii below the smallest aperture (guards: %s)' % seen, 'too-small')
            unit_findings(ctx, I, fv, 'interpolate_variable comparisons')
        else:
            ref, facts, parts = variable_reference(Fraction(999, 1000))
            _, fns_ = alg.leaf_syms(outv.poly)
            raw_search = alg.contains_atom(outv.poly, lambda a_: a_[0] == 'fn' and a_[1] == 'searchsorted' and len(a_) >= 3 and a_[2][0] == 'B' and
                                           Poly.from_key(a_[2][2]).is_monomial() and not alg.leaf_syms(Poly.from_key(a_[2][2]))[1] and 'cap' in alg.leaf_syms(Poly.from_key(a_[2][2]))[0])
            if 'searchsorted' in fns_ and not increasing and raw_search:
                # a hand-written interpolation that searches the aperture table as it is stored, where nothing promises the order it is stored in: it is compared
                # with the library's interpolation (which sorts the table itself) written out the same way; what is left is a real difference for tables
                # stored in another order
                outv = outv.with_(poly=alg.unfold_lininterp(outv.poly))
                ref = alg.unfold_lininterp(ref)
                compare(ctx, 'CFG-7', 'interpolate_variable result', where_, outv, ref, (N,), facts, vocab=VOCAB | {'fw', 'wav'}, fns=FNS | {'value', 'exp10', 'searchsorted', 'argsort', 'arange'},
                        detail_ok='as the library interpolation, for any storage order of the aperture table')
            else:
                compare(ctx, 'CFG-7', 'interpolate_variable result', where_, outv, ref, (N,), facts, vocab=VOCAB | {'fw', 'wav'}, fns=FNS | {'value', 'exp10'})
            decided = any(o.rule == 'CFG-7' and o.instance == 'interpolate_variable result' and o.status == 'VIOLATION' for o in ctx.obs)
    if not decided:
        if bad_axes:
            ctx.violation('AXIS', 'interpolate_variable flux interpolator', loc(fv, bad_axes[0].line), bad_axes[0].msg, 'axis')
            return
        if not isinstance(outv, Arr):
            ctx.undecided('CFG-7', 'interpolate_variable result', where_, 'value not modelled: %r' % (outv,))
        try:
            variable_details(SuspectCtx(ctx, 'the result was not decided as a whole and the piecewise rule, which knows one spelling only, reports'))
        except AnalysisError as e:
            ctx.undecided('CFG-7', 'interpolate_variable (piecewise rules)', where_, 'structure not recognised: %s' % e)


def variable_details(ctx, pre=None):
    repo = ctx.repo
    U, mJy, au = sym('unit:U'), sym('unit:mJy'), sym('unit:au')
    q, cap = sym('q', D), sym('cap', A)
    scls = repo.cls('sed.sed', 'SED')

    def mks():
        return Obj(scls, {'_apertures': symarr('cap', (A,), unit=sym('unit:cm')), '_flux': symarr('flux', (A, N), unit=mJy), '_error': symarr('err', (A, N), unit=mJy),
                          '_wav': symarr('wav', (N,), unit=sym('unit:micron')), '_nu': None})
    # ---------------- SED.interpolate_variable
    fv = ctx.fn(repo.func('sed.sed', 'SED.interpolate_variable'))
    h = H()
    I = Interp(repo, h)
    outv = I.call(fv, [symarr('fw', ('w',), unit=num(1)), symarr('q', ('w',), unit=num(1))], selfv=mks())
    flux_i1d = [x for x in h.i1d if isinstance(x[2], _Interp1d) and x[2].y.dims[-1:] == (A,)]
    if not flux_i1d:
        bad = [f for f in I.findings if f.kind == 'label-clash']
        if bad:
            ctx.violation('AXIS', 'interpolate_variable flux interpolator', loc(fv, bad[0].line), bad[0].msg, 'axis')
        else:
            ctx.undecided('AXIS', 'interpolate_variable flux interpolator', loc(fv), 'interp1d over the aperture axis not found')
    else:
        args, kwargs, r, node = flux_i1d[0]
        capn = cap / au
        okx = alg.is_zero(r.x.poly * (r.x.unit.pow(-1) if r.x.unit is not None else 1) - capn)[0] and r.y.poly == sym('flux', A, N) and not kwargs
        ctx.expect(okx, 'AXIS', 'interpolate_variable flux interpolator', loc(fv, node.lineno), 'interp1d(apertures[AU], flux along the aperture axis), scipy defaults',
                   'interp1d(%s, %s, %s)' % (alg.show(r.x.poly, 60), alg.show(r.y.poly, 60), sorted(kwargs)), 'variable-interp1d')
    # PERM-10: the aperture-versus-wavelength interpolator pairs each filter wavelength with that filter's own aperture,
    # on an increasing abscissa
    fw, qv = sym('fw', 'w'), sym('q', 'w')
    capn = cap / au
    mxn = mk_fn('max', B(A, capn))
    order = alg.array_fn('argsort', 'w', fw)
    def gathered(p_):
        return mk_fn('at', B('w', p_), P(order))
    cands = []
    for args, kwargs, r, node in h.i1d:
        if isinstance(r, _Interp1d) and 'fw' in alg.leaf_syms(r.x.poly)[0]:
            cands.append(('interp1d', r.x, r.y, kwargs, node))
    for args, kwargs, node in h.npinterp:
        if len(args) >= 3 and all(isinstance(a_, Arr) for a_ in args[:3]) and 'fw' in alg.leaf_syms(args[1].poly)[0]:
            cands.append(('np.interp', args[1], args[2], kwargs, node))
    if not cands:
        ctx.undecided('PERM-10', 'aperture(wavelength) interpolator', loc(fv), 'no interpolator over the filter wavelengths found')
    else:
        kind, xv, yv, kwargs, node = cands[0]
        syms_y = alg.leaf_syms(yv.poly)[0]
        # the ordinate must be the (clamped) request; find the clamp constant from the term itself: q + [max<q](k*max - q)
        def y_ref(k, gather):
            qc_ = qv + lt(mxn, qv) * (k * mxn - qv)
            return alg.log10(gathered(qc_) if gather else qc_)
        def x_ref(gather):
            return alg.log10(gathered(fw) if gather else fw)
        kk = Fraction(repr(kfound_pre)) if (kfound_pre := _clamp_constant(fv)) is not None else Fraction(1)
        sorted_pair = alg.is_zero(xv.poly - x_ref(True))[0] and alg.is_zero(yv.poly - y_ref(kk, True))[0]
        plain_pair = alg.is_zero(xv.poly - x_ref(False))[0] and alg.is_zero(yv.poly - y_ref(kk, False))[0]
        if sorted_pair:
            ctx.ok('PERM-10', 'aperture(wavelength) interpolator', loc(fv, node.lineno), 'abscissa log10(wavelengths[order]) and ordinate log10(apertures[order]) share order = argsort(wavelengths)')
        elif plain_pair and kind == 'interp1d' and 'assume_sorted' not in kwargs:
            ctx.ok('PERM-10', 'aperture(wavelength) interpolator', loc(fv, node.lineno), 'wavelengths and apertures passed in filter order to interp1d, which sorts the pairs itself')
        elif plain_pair:
            ctx.violation('PERM-10', 'aperture(wavelength) interpolator', loc(fv, node.lineno), '%s needs an increasing abscissa but the filter wavelengths are passed in the order the user listed them' % kind, 'unsorted-abscissa')
        else:
            ctx.violation('PERM-10', 'aperture(wavelength) interpolator', loc(fv, node.lineno),
                          'wavelengths and apertures are not paired filter by filter: abscissa %s ; ordinate %s' % (alg.show(xv.poly, 120), alg.show(yv.poly, 160)), 'pairing')
    # the clamp statement: apertures[apertures > max] = k * max
    kfound = None
    for t, v, st in stores(fv.node):
        if isinstance(t, ast.Subscript) and isinstance(t.value, ast.Name) and t.value.id == fv.params[2] and isinstance(t.slice, ast.Compare) and isinstance(t.slice.ops[0], ast.Gt) \
                and 'max()' in up(t.slice.comparators[0]) and 'max()' in up(v):
            k = 1.0
            if isinstance(v, ast.BinOp) and isinstance(v.op, ast.Mult):
                for side in (v.left, v.right):
                    if isinstance(side, ast.Constant) and isinstance(side.value, (int, float)):
                        k = float(side.value)
            kfound = (k, st)
    ctx.expect(kfound is not None and 0.99 <= kfound[0] <= 1.0, 'CFG-7', 'interpolate_variable clamp', loc(fv, kfound[1].lineno if kfound else None),
               'radii above the table maximum are set to k*max with k = %s' % (kfound[0] if kfound else None), 'no clamp to (a fraction k in [0.99, 1] of) the table maximum', 'variable-clamp')
    ctx.extra['clamp_constant_interpolate_variable'] = kfound[0] if kfound else None
    # the whole result: at SED wavelength n the flux table is interpolated linearly (over apertures) at the aperture the log-log aperture(wavelength)
    # curve gives for that wavelength - the curve held constant beyond the first / last filter wavelength - i.e. the diagonal of the (wavelength x query) product
    from ..interp import _linear_fn
    from ..alg import C
    kq = Fraction(repr(kfound[0])) if kfound else Fraction(1)
    qc_ = qv + lt(mxn, qv) * (kq * mxn - qv)
    xs_, ys_ = alg.log10(gathered(fw)), alg.log10(gathered(qc_))
    lw = alg.log10(sym('wav', N) / sym('unit:micron'))
    val = lambda p_: mk_fn('value', P(p_))
    curve = _linear_fn('lininterp', lw, 'w', xs_, ys_, [C('bounds_error=False'), C('fill_value=Marker(numpy.nan)')])
    first = lambda p_: mk_fn('at', B('w', p_), P(Poly()))
    last = lambda p_: mk_fn('at', B('w', p_), P(Poly.const(-1)))
    ap1 = mk_fn('exp10', P(curve))
    ap2 = ap1 + lt(lw, first(xs_)) * (mk_fn('exp10', P(first(ys_))) - ap1)
    ap3 = ap2 + lt(last(xs_), lw) * (mk_fn('exp10', P(last(ys_))) - ap2)
    ref_v = _linear_fn('lininterp', ap3, A, capn, sym('flux', A, N) / mJy, [])
    sorted_fact = alg.Facts().assume_le(first(xs_), last(xs_))        # the abscissa is sorted: first <= last, so the two edge masks are disjoint
    compare(ctx, 'CFG-7', 'interpolate_variable result', loc(fv), outv, ref_v, (N,), sorted_fact, vocab=VOCAB | {'fw', 'wav'}, fns=FNS | {'value', 'exp10'},
            findings=[f for f in I.findings if f.kind == 'label-clash'],
            detail_ok='flux[:, n] interpolated linearly at the aperture of the log-log aperture(wavelength) curve at wavelength n (curve held constant beyond the end filters): the diagonal pairing')
    qcl = qv + lt(mxn, qv) * ((Fraction(repr(kfound[0])) if kfound else Fraction(1)) * mxn - qv)
    okg, seen = refuses_below(I, [qv, qcl, qv * au, qcl * au], [capn, cap], A, 'w')
    ctx.expect(okg, 'CFG-7', 'interpolate_variable refuses radii below the table', loc(fv), 'raises when any request < table minimum',
               'no raise guards radii below the smallest aperture (guards: %s)' % seen, 'too-small')
    unit_findings(ctx, I, fv, 'interpolate_variable comparisons')


CF = 'sedfitter/convolved_fluxes/convolved_fluxes.py'
VA = 'sedfitter/utils/validator.py'
SE = 'sedfitter/sed/sed.py'
MUST_FIRE = [
    ('round 12 twin: the refusal tested on the count of too-LARGE requests', [(CF, "            if np.any(c.apertures < self.apertures.min()):\n                raise Exception(\"Aperture(s) requested too small\")", "            if np.flatnonzero(c.apertures > self.apertures.min()).size > 0:\n                raise Exception(\"Aperture(s) requested too small\")")]),
    ('single-aperture SED repeated along the first axis, then reshaped (not a transpose): scrambled for two or more requests', [(SE, 'return np.repeat(self.flux[0, :], len(apertures)).reshape(self.n_wav, len(apertures))', 'return np.repeat(self.flux[0:1, :], len(apertures), axis=0).reshape(self.n_wav, len(apertures))')]),
    ('apertures setter demands increasing values: a request in another order is refused', [(CF, "self._apertures = validate_array('apertures', value, domain='positive', ndim=1, physical_type='length')", "self._apertures = validate_array('apertures', value, domain='increasing', ndim=1, physical_type='length')"),
        (VA, "            raise ValueError(\"{0} has incorrect shape (expected {1} but found {2})\".format(name, expected_shape, actual_shape))\n\n    return value", "            raise ValueError(\"{0} has incorrect shape (expected {1} but found {2})\".format(name, expected_shape, actual_shape))\n\n    if domain == 'increasing':\n        if np.any(np.diff(value) <= 0.):\n            raise ValueError(\"{0} should be strictly increasing\".format(name))\n\n    return value")]),
    ('SED look-up by searchsorted(side=right): a request on the largest aperture indexes past the table', [(SE, '        # Create interpolating function\n        flux_interp = interp1d(sed_apertures, self.flux.swapaxes(0, 1))\n\n        # If any apertures are larger than the defined max, reset to max\n        apertures[apertures > sed_apertures.max()] = sed_apertures.max()\n\n        # If any apertures are smaller than the defined min, raise Exception\n        if np.any(apertures < sed_apertures.min()):\n            raise Exception("Aperture(s) requested too small")\n\n        return flux_interp(apertures)\n', '        # If any apertures are larger than the defined max, reset to max\n        apertures[apertures > sed_apertures.max()] = sed_apertures.max()\n\n        # If any apertures are smaller than the defined min, raise Exception\n        if np.any(apertures < sed_apertures.min()):\n            raise Exception("Aperture(s) requested too small")\n\n        # segment of the table each request falls in, then the chord of that segment\n        values = self.flux.value\n        upper = np.searchsorted(sed_apertures, apertures, side=\'right\')\n        lower = upper - 1\n        frac = (apertures - sed_apertures[lower]) / (sed_apertures[upper] - sed_apertures[lower])\n        return (values[lower, :] + (values[upper, :] - values[lower, :]) * frac[:, np.newaxis]).transpose()\n')]),
    ('look-up written as a loop over half-open aperture intervals: a request on the largest aperture falls in none', [(CF, '            flux_interp = interp1d(self.apertures, self.flux)\n            c.flux = flux_interp(new_apertures) * self.flux.unit\n\n            # The following is not strictly correct - errors from interpolation is not interpolation of errors\n            error_interp = interp1d(self.apertures, self.error)\n            c.error = error_interp(new_apertures) * self.error.unit\n', '            ap_old = self.apertures.value\n            ap_new = new_apertures.value\n            tables = []\n            for values in (self.flux.value, self.error.value):\n                result = np.zeros((values.shape[0], len(ap_new)))\n                for ia in range(len(ap_old) - 1):\n                    calc = (ap_new >= ap_old[ia]) & (ap_new < ap_old[ia + 1])\n                    frac = (ap_new[calc] - ap_old[ia]) / (ap_old[ia + 1] - ap_old[ia])\n                    result[:, calc] = values[:, ia, np.newaxis] + (values[:, ia + 1] - values[:, ia])[:, np.newaxis] * frac[np.newaxis, :]\n                tables.append(result)\n            c.flux = tables[0] * self.flux.unit\n            c.error = tables[1] * self.error.unit\n')]),
    ('single-aperture SED tiled instead of repeated', [(SE, "return np.repeat(self.flux[0, :], len(apertures)).reshape(self.n_wav, len(apertures))", "return np.tile(self.flux[0, :], len(apertures)).reshape(self.n_wav, len(apertures))")]),
    ('aperture curve through np.interp without sorting the filters', [(SE, "        # Find wavelength order\n        order = np.argsort(wavelengths)\n\n        # Interpolate apertures vs wavelength\n        log10_ap_interp = interp1d(np.log10(wavelengths[order]), np.log10(apertures[order]), bounds_error=False, fill_value=np.nan)\n", ""), (SE, "        # Interpolate the apertures\n        apertures = 10. ** log10_ap_interp(np.log10(sed_wav))\n\n        # Extrapolate on either side\n        apertures[np.log10(sed_wav) < log10_ap_interp.x[0]] = 10. ** log10_ap_interp.y[0]\n        apertures[np.log10(sed_wav) > log10_ap_interp.x[-1]] = 10. ** log10_ap_interp.y[-1]\n", "        apertures = 10. ** np.interp(np.log10(sed_wav), np.log10(wavelengths), np.log10(apertures))\n")]),
    ('D21 reverted: clamped request converted back to the table unit before the bounds-checked look-up', [(CF, "new_apertures = np.clip(c.apertures.to(self.apertures.unit), self.apertures.min(), self.apertures.max())", "new_apertures = c.apertures.to(self.apertures.unit)")]),
    ('variable aperture: short-wavelength side held at the last filter aperture', [(SE, "apertures[np.log10(sed_wav) < log10_ap_interp.x[0]] = 10. ** log10_ap_interp.y[0]", "apertures[np.log10(sed_wav) < log10_ap_interp.x[0]] = 10. ** log10_ap_interp.y[-1]")]),
    ('variable aperture: long-wavelength side not held', [(SE, "        apertures[np.log10(sed_wav) > log10_ap_interp.x[-1]] = 10. ** log10_ap_interp.y[-1]\n", "")]),
    ('variable aperture: first query column instead of the diagonal', [(SE, "return flux_interp(apertures).diagonal()", "return flux_interp(apertures)[:, 0]")]),
    ('variable aperture: curve interpolated in linear wavelength', [(SE, "apertures = 10. ** log10_ap_interp(np.log10(sed_wav))", "apertures = 10. ** log10_ap_interp(sed_wav)")]),
    ('range check applied to single-aperture tables too', [(CF, "        if self.n_ap > 1:\n\n            # If any apertures are larger than the defined max, reset to max\n            if np.any(c.apertures > self.apertures.max()):\n                apertures[c.apertures > self.apertures.max()] = self.apertures.max()\n\n            # If any apertures are smaller than the defined min, raise error\n            if np.any(c.apertures < self.apertures.min()):\n                raise Exception(\"Aperture(s) requested too small\")\n",
                                                               "        if np.any(c.apertures < self.apertures.min()):\n            raise Exception(\"Aperture(s) requested too small\")\n\n        if self.n_ap > 1:\n\n            # If any apertures are larger than the defined max, reset to max\n            if np.any(c.apertures > self.apertures.max()):\n                apertures[c.apertures > self.apertures.max()] = self.apertures.max()\n")]),
    ('single-aperture repeat reshaped the other way round', [(CF, "c.flux = np.repeat(self.flux, len(c.apertures)).reshape(c.n_models, len(c.apertures))", "c.flux = np.repeat(self.flux, len(c.apertures)).reshape(len(c.apertures), c.n_models).T")]),
    ('single-aperture error repeats the flux', [(CF, "c.error = np.repeat(self.error, len(c.apertures))", "c.error = np.repeat(self.flux, len(c.apertures))")]),
    ('clamp removed', [(CF, "            if np.any(c.apertures > self.apertures.max()):\n                apertures[c.apertures > self.apertures.max()] = self.apertures.max()\n", "")]),
    ('clamp to min()', [(CF, "apertures[c.apertures > self.apertures.max()] = self.apertures.max()", "apertures[c.apertures > self.apertures.max()] = self.apertures.min()")]),
    ('raise removed', [(CF, "            if np.any(c.apertures < self.apertures.min()):\n                raise Exception(\"Aperture(s) requested too small\")\n", "")]),
    ("kind='nearest'", [(CF, "flux_interp = interp1d(self.apertures, self.flux)", "flux_interp = interp1d(self.apertures, self.flux, kind='nearest')")]),
    ("fill_value='extrapolate'", [(CF, "error_interp = interp1d(self.apertures, self.error)", "error_interp = interp1d(self.apertures, self.error, fill_value='extrapolate')")]),
    ('bounds_error=False', [(SE, "flux_interp = interp1d(sed_apertures, self.flux.swapaxes(0, 1))\n\n        # If any apertures are larger than the defined max, reset to max\n        apertures[apertures > sed_apertures.max()] = sed_apertures.max()\n",
                                 "flux_interp = interp1d(sed_apertures, self.flux.swapaxes(0, 1), bounds_error=False)\n\n        # If any apertures are larger than the defined max, reset to max\n        apertures[apertures > sed_apertures.max()] = sed_apertures.max()\n")]),
    ('repeat reshaped (len, n_models)', [(CF, "c.flux = np.repeat(self.flux, len(c.apertures)).reshape(c.n_models, len(c.apertures))", "c.flux = np.repeat(self.flux, len(c.apertures)).reshape(len(c.apertures), c.n_models)")]),
    ('error_interp from flux', [(CF, "error_interp = interp1d(self.apertures, self.error)", "error_interp = interp1d(self.apertures, self.flux)")]),
    ('view replaced by a copy', [(CF, "c.apertures = apertures[:]", "c.apertures = apertures.copy()")]),
    ('.to(...) dropped from the query', [(CF, "new_apertures = np.clip(c.apertures.to(self.apertures.unit), self.apertures.min(), self.apertures.max())", "new_apertures = c.apertures")]),
    ('SED.interpolate: bare request against a quantity table (D19 reverted)', [(SE, "        apertures[apertures > sed_apertures.max()] = sed_apertures.max()\n\n        # If any apertures are smaller than the defined min, raise Exception\n        if np.any(apertures < sed_apertures.min()):\n            raise Exception(\"Aperture(s) requested too small\")\n\n        return flux_interp(apertures)",
                                                                                   "        apertures[apertures > self.apertures.max()] = self.apertures.max()\n\n        # If any apertures are smaller than the defined min, raise Exception\n        if np.any(apertures < self.apertures.min()):\n            raise Exception(\"Aperture(s) requested too small\")\n\n        return flux_interp(apertures)")]),
    ('SED.interpolate: table in cm, request in AU', [(SE, "        sed_apertures = self.apertures.to(u.au).value\n        if isinstance(apertures, u.Quantity):", "        sed_apertures = self.apertures.to(u.cm).value\n        if isinstance(apertures, u.Quantity):")]),
    ('SED.interpolate interpolates along wavelength', [(SE, "flux_interp = interp1d(sed_apertures, self.flux.swapaxes(0, 1))\n\n        # If any apertures are larger than the defined max, reset to max\n        apertures[apertures > sed_apertures.max()] = sed_apertures.max()\n",
                                                             "flux_interp = interp1d(sed_apertures, self.flux)\n\n        # If any apertures are larger than the defined max, reset to max\n        apertures[apertures > sed_apertures.max()] = sed_apertures.max()\n")]),
    ('interpolate_variable clamp to half the maximum', [(SE, "apertures[apertures > sed_apertures.max()] = sed_apertures.max() * 0.999", "apertures[apertures > sed_apertures.max()] = sed_apertures.max() * 0.5")]),
    ('names taken from the request', [(CF, "c.model_names = self.model_names", "c.model_names = self.model_names[::-1]")]),
    ('clamp applied after interpolation', [(SE, "        apertures[apertures > sed_apertures.max()] = sed_apertures.max()\n\n        # If any apertures are smaller than the defined min, raise Exception\n        if np.any(apertures < sed_apertures.min()):\n            raise Exception(\"Aperture(s) requested too small\")\n\n        return flux_interp(apertures)",
                                               "        if np.any(apertures < sed_apertures.min()):\n            raise Exception(\"Aperture(s) requested too small\")\n\n        result = flux_interp(apertures)\n        apertures[apertures > sed_apertures.max()] = sed_apertures.max()\n        return result")]),
]
MUST_SILENT = [
    ('round 12: positions of the too-large requests found once, clamped only when there are any; the refusal tested on the count of too-small ones', [(CF, "            if np.any(c.apertures > self.apertures.max()):\n                apertures[c.apertures > self.apertures.max()] = self.apertures.max()\n",
      "            too_large = np.flatnonzero(c.apertures > self.apertures.max())\n            if too_large.size > 0:\n                apertures[too_large] = self.apertures.max()\n"),
      (CF, "            if np.any(c.apertures < self.apertures.min()):\n                raise Exception(\"Aperture(s) requested too small\")", "            if np.flatnonzero(c.apertures < self.apertures.min()).size > 0:\n                raise Exception(\"Aperture(s) requested too small\")")]),
    ('single-aperture SED repeated along a new last axis', [(SE, 'return np.repeat(self.flux[0, :], len(apertures)).reshape(self.n_wav, len(apertures))', 'return np.repeat(self.flux[0, :, np.newaxis], len(apertures), axis=1)')]),
    ('validate_array enforces the positive domain it was always passed', [(VA, "            raise ValueError(\"{0} has incorrect shape (expected {1} but found {2})\".format(name, expected_shape, actual_shape))\n\n    return value", "            raise ValueError(\"{0} has incorrect shape (expected {1} but found {2})\".format(name, expected_shape, actual_shape))\n\n    if domain == 'positive':\n        if np.any(value < 0.):\n            raise ValueError(\"{0} should be positive\".format(name))\n\n    return value")]),
    ('SED look-up by searchsorted, the first aperture taken with the first segment', [(SE, '        # Create interpolating function\n        flux_interp = interp1d(sed_apertures, self.flux.swapaxes(0, 1))\n\n        # If any apertures are larger than the defined max, reset to max\n        apertures[apertures > sed_apertures.max()] = sed_apertures.max()\n\n        # If any apertures are smaller than the defined min, raise Exception\n        if np.any(apertures < sed_apertures.min()):\n            raise Exception("Aperture(s) requested too small")\n\n        return flux_interp(apertures)\n', '        # If any apertures are larger than the defined max, reset to max\n        apertures[apertures > sed_apertures.max()] = sed_apertures.max()\n\n        # If any apertures are smaller than the defined min, raise Exception\n        if np.any(apertures < sed_apertures.min()):\n            raise Exception("Aperture(s) requested too small")\n\n        # segment of the table each request falls in, then the chord of that segment\n        values = self.flux.value\n        upper = np.searchsorted(sed_apertures, apertures)\n        upper = np.maximum(upper, 1)\n        lower = upper - 1\n        frac = (apertures - sed_apertures[lower]) / (sed_apertures[upper] - sed_apertures[lower])\n        return (values[lower, :] + (values[upper, :] - values[lower, :]) * frac[:, np.newaxis]).transpose()\n')]),
    ('look-up written as a loop over half-open aperture intervals, the largest aperture set on its own', [(CF, '            flux_interp = interp1d(self.apertures, self.flux)\n            c.flux = flux_interp(new_apertures) * self.flux.unit\n\n            # The following is not strictly correct - errors from interpolation is not interpolation of errors\n            error_interp = interp1d(self.apertures, self.error)\n            c.error = error_interp(new_apertures) * self.error.unit\n', '            ap_old = self.apertures.value\n            ap_new = new_apertures.value\n            tables = []\n            for values in (self.flux.value, self.error.value):\n                result = np.zeros((values.shape[0], len(ap_new)))\n                for ia in range(len(ap_old) - 1):\n                    calc = (ap_new >= ap_old[ia]) & (ap_new < ap_old[ia + 1])\n                    frac = (ap_new[calc] - ap_old[ia]) / (ap_old[ia + 1] - ap_old[ia])\n                    result[:, calc] = values[:, ia, np.newaxis] + (values[:, ia + 1] - values[:, ia])[:, np.newaxis] * frac[np.newaxis, :]\n                result[:, ap_new == ap_old[-1]] = values[:, -1, np.newaxis]\n                tables.append(result)\n            c.flux = tables[0] * self.flux.unit\n            c.error = tables[1] * self.error.unit\n')]),
    ('single-aperture SED repeated along a new axis', [(SE, "return np.repeat(self.flux[0, :], len(apertures)).reshape(self.n_wav, len(apertures))", "return np.repeat(self.flux[0, :, np.newaxis], len(apertures), axis=1)")]),
    ('aperture curve through np.interp on the sorted filters', [(SE, "        # Find wavelength order\n        order = np.argsort(wavelengths)\n\n        # Interpolate apertures vs wavelength\n        log10_ap_interp = interp1d(np.log10(wavelengths[order]), np.log10(apertures[order]), bounds_error=False, fill_value=np.nan)\n", "        order = np.argsort(wavelengths)\n"), (SE, "        # Interpolate the apertures\n        apertures = 10. ** log10_ap_interp(np.log10(sed_wav))\n\n        # Extrapolate on either side\n        apertures[np.log10(sed_wav) < log10_ap_interp.x[0]] = 10. ** log10_ap_interp.y[0]\n        apertures[np.log10(sed_wav) > log10_ap_interp.x[-1]] = 10. ** log10_ap_interp.y[-1]\n", "        apertures = 10. ** np.interp(np.log10(sed_wav), np.log10(wavelengths[order]), np.log10(apertures[order]))\n")]),
    ('interp1d left to sort the aperture curve itself', [(SE, "interp1d(np.log10(wavelengths[order]), np.log10(apertures[order]), bounds_error=False, fill_value=np.nan)", "interp1d(np.log10(wavelengths), np.log10(apertures), bounds_error=False, fill_value=np.nan)")]),
    ('bounds re-applied after the conversion with minimum/maximum', [(CF, "new_apertures = np.clip(c.apertures.to(self.apertures.unit), self.apertures.min(), self.apertures.max())", "new_apertures = np.maximum(np.minimum(c.apertures.to(self.apertures.unit), self.apertures.max()), self.apertures.min())")]),
    ('variable aperture: log wavelength in a temporary', [(SE, "        apertures = 10. ** log10_ap_interp(np.log10(sed_wav))\n\n        # Extrapolate on either side\n        apertures[np.log10(sed_wav) < log10_ap_interp.x[0]] = 10. ** log10_ap_interp.y[0]\n        apertures[np.log10(sed_wav) > log10_ap_interp.x[-1]] = 10. ** log10_ap_interp.y[-1]",
                                                              "        log_wav = np.log10(sed_wav)\n        apertures = 10. ** log10_ap_interp(log_wav)\n\n        # Extrapolate on either side\n        apertures[log_wav > log10_ap_interp.x[-1]] = 10. ** log10_ap_interp.y[-1]\n        apertures[log_wav < log10_ap_interp.x[0]] = 10. ** log10_ap_interp.y[0]")]),
    ('single-aperture repeat with the request length in a temporary', [(CF, "            c.flux = np.repeat(self.flux, len(c.apertures)).reshape(c.n_models, len(c.apertures))\n            c.error = np.repeat(self.error, len(c.apertures)).reshape(c.n_models, len(c.apertures))",
                                                                          "            n_new = len(c.apertures)\n            c.flux = np.repeat(self.flux, n_new).reshape(self.n_models, n_new)\n            c.error = np.repeat(self.error, n_new).reshape(self.n_models, n_new)")]),
    ('clamp through np.minimum-free rewrite: mask variable', [(CF, "                apertures[c.apertures > self.apertures.max()] = self.apertures.max()", "                too_big = c.apertures > self.apertures.max()\n                apertures[too_big] = self.apertures.max()")]),
    ('table maximum via a temporary', [(SE, "        apertures[apertures > sed_apertures.max()] = sed_apertures.max()\n\n        # If any apertures are smaller than the defined min, raise Exception\n        if np.any(apertures < sed_apertures.min()):",
                                            "        ap_max = sed_apertures.max()\n        apertures[apertures > ap_max] = ap_max\n\n        # If any apertures are smaller than the defined min, raise Exception\n        if np.any(apertures < sed_apertures.min()):")]),
]


def thorough(ctx):
    from .. import selftest
    selftest.run(ctx, MUST_FIRE, MUST_SILENT)
