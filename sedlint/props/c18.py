"""C18 filter_output splits sources into two complete, disjoint, faithful files."""
import ast

from ..astutil import up, chain, calls, is_call_to, walk_local, paths, root_name, stores, const
from ..rules import where, path_actions
from ..loader import AnalysisError
from .. import boolfn, alg
from ..alg import Poly, P, B, sym, lt, mk_fn, sum_over
from ..interp import Interp, Hooks, Foreign, Arr, Obj, Unk, symarr, scalar, num
from ..fitmodel import loc
from . import common

R, W = 'r', 'w'

EXPLANATION = (
    "Decides on every path of filter_output's loop body: (CFG-4) exactly one write of the loop record itself, to one of "
    "two distinct writers, with no mutation before it and no continue/break/return (completeness, disjointness, order, "
    "faithfulness); (ALG-17) the branch that selects the 'good' writer is, on all 16 assignments of its four atoms, the "
    "function (chi set and chi2[0] < chi) or (cpd set and chi2[0]/n_data < cpd); (CFG-4n) automatic names are input+'_good' / "
    "input+'_bad', non-string inputs require explicit names, and the three files are closed; (CFG-10/EFF-2) list input is "
    "accepted by the constructor and records are not modified.")
NOT_DECIDED = ["pickle fidelity (library)", "behaviour at chi2 exactly equal to the threshold (excluded by the quantifier)"]
ASSUMPTIONS = ["<= and < are identified (no exact ties)", "a loop body is analysed for one generic iteration"]
TRUSTED = ["python ast"]
MIN = {'CFG-4': 6, 'ALG-17': 3, 'CFG-4n': 5, 'EFF-2': 1, 'CFG-10': 1}



class FilterHooks(Hooks):
    """FitInfoFile objects are stand-ins: the reader iterates over one generic record; a writer records (file name, record, condition) for every write"""
    def __init__(self, record):
        self.record = record
        self.writes, self.opened, self.closed = [], [], []

    def construct(self, interp, ci, args, kwargs, node):
        if ci.name == 'FitInfoFile':
            mode = args[1] if len(args) > 1 else kwargs.get('mode')
            self.opened.append((args[0] if args else None, mode))
            if mode == 'r':
                return _FileStandIn(self, 'r', args[0] if args else None)
            return _FileStandIn(self, 'w', args[0] if args else None)
        return NotImplemented


class _RealWriters(Hooks):
    """the reader is a stand-in over one generic record; the writers are the real FitInfoFile class on a modelled stream, every open() recorded with the
    condition it happens under"""
    def __init__(self, record):
        from .. import recfile
        self.record = record
        self.opens, self.writes, self.opened, self.closed = [], [], [], []
        self._rec = recfile.RecHooks(recfile.PickleStream())

    def construct(self, interp, ci, args, kwargs, node):
        if ci.name == 'FitInfoFile':
            mode = args[1] if len(args) > 1 else kwargs.get('mode')
            if mode == 'r':
                return _FileStandIn(self, 'r', args[0] if args else None)
        return NotImplemented

    def opaque(self, interp, fi, args, kwargs, node):
        return self._rec.opaque(interp, fi, args, kwargs, node)

    def external(self, interp, name, args, kwargs, node, mod):
        if name == 'builtins.open':
            self.opens.append((args[0] if args else None, args[1] if len(args) > 1 else kwargs.get('mode', 'r'), interp.path_cond()))
        return self._rec.external(interp, name, args, kwargs, node, mod)


class _FileStandIn(Foreign):
    def __init__(self, hooks, mode, name):
        self.hooks, self.mode, self.name = hooks, mode, name

    def sl_iter(self, interp):
        return [self.hooks.record] if self.mode == 'r' else NotImplemented

    def sl_method(self, interp, name, args, kw, node):
        if name == 'write' and self.mode == 'w' and len(args) == 1:
            self.hooks.writes.append((self.name, args[0], interp.path_cond()))
            return None
        if name == 'close':
            self.hooks.closed.append(self.name)
            return None
        return NotImplemented


def semantic_filter_output(ctx):
    """filter_output interpreted on one generic record, for each way the thresholds can be given: the record is written exactly once, to the good file
    exactly when its best chi^2 (or best chi^2 per data point) is below the threshold given, otherwise to the bad file, and it is the record that was read."""
    repo = ctx.repo
    fo = ctx.fn(repo.func('filter_output', 'filter_output'))
    where_ = loc(fo)
    decided = True
    best = mk_fn('at', B(R, sym('chi2', R)), P(Poly()))
    v = sym('valid', W)
    nd = sum_over(alg.eq(v, 1), W) + sum_over(alg.eq(v, 4), W)
    for tag, use_chi, use_cpd in (('total chi^2 threshold', True, False), ('chi^2 per data point threshold', False, True), ('both thresholds', True, True)):
        src = Obj(repo.cls('source.source', 'Source'), {'_valid': symarr('valid', (W,), unit=num(1))})
        rec = Obj(repo.cls('fit_info', 'FitInfo'), {'source': src, 'chi2': symarr('chi2', (R,), unit=num(1)), 'av': symarr('av', (R,), unit=num(1)), 'sc': symarr('sc', (R,), unit=num(1))})
        snapshot = dict(rec.attrs)
        h = FilterHooks(rec)
        I = Interp(repo, h)
        I.nonzero = [sym('chi'), sym('cpd')]
        kwargs = {'input_fits': 'IN', 'output_good': 'GOOD', 'output_bad': 'BAD'}          # a threshold that is not given is left to the function's default
        if use_chi:
            kwargs['chi'] = scalar(sym('chi'), num(1))
        if use_cpd:
            kwargs['cpd'] = scalar(sym('cpd'), num(1))
        r = I.call(fo, [], kwargs)
        inst = 'one record, %s' % tag
        if I.lost:
            ctx.undecided('CFG-4', inst, where_, 'a call made for its effect was not modelled: %s (%s)' % (I.lost[0][1], I.lost[0][2][:80]))
            decided = False
            continue
        if isinstance(r, Unk):
            ctx.undecided('CFG-4', inst, where_, 'not modelled: %r' % (r,))
            decided = False
            continue
        g = Poly()
        if use_chi:
            g = alg.b_or(g, lt(best, sym('chi')))
        if use_cpd:
            g = alg.b_or(g, lt(best / nd, sym('cpd')))
        per = {}
        ok_rec = True
        for name, obj, cond in h.writes:
            per[name] = per.get(name, Poly()) + cond
            if not (isinstance(obj, Obj) and obj.cls is rec.cls and all(obj.attrs.get(k) is snapshot[k] or (isinstance(obj.attrs.get(k), Arr) and isinstance(snapshot[k], Arr) and obj.attrs[k].poly == snapshot[k].poly) for k in snapshot if k != 'source')):
                ok_rec = False
        total = Poly()
        for c in per.values():
            total = total + c
        if not alg.is_zero(total - 1)[0]:
            syms, fns = alg.leaf_syms(total)
            if syms <= {'chi2', 'valid', 'chi', 'cpd'} and fns <= {'at', 'len'}:
                ctx.violation('CFG-4', inst, where_, 'the record is written %s times (to %s): each source must go to exactly one file' % (alg.show(total, 120), sorted(per)), 'write-count')
            else:
                ctx.undecided('CFG-4', inst, where_, 'number of writes %s not decided' % alg.show(total, 120)); decided = False
            continue
        ctx.ok('CFG-4', inst, where_, 'written exactly once, to %s' % sorted(per))
        ctx.expect(ok_rec, 'CFG-4', inst + ': the record written is the record read', where_, 'unchanged', 'a record is modified (or another object is written) before it reaches the file', 'modified-before-write')
        gg = per.get('GOOD', Poly())
        # the records are ranked (C04): the smallest defined chi^2 is the first one - nanmin(chi2) is chi2[0]; min(chi2) is not: one undefined chi^2 in the tail
        # (a model with no flux in a band, kept by the 'A' and 'N' selectors) makes it undefined and the comparison false
        first_ = best
        gg = alg.rebuild(gg, lambda a: first_ if a[0] == 'fn' and a[1] == 'nanmin' and len(a) == 3 and a[2] == ('B', R, sym('chi2', R).key()) else None)
        if alg.is_zero(gg - g)[0]:
            ctx.ok('ALG-17', inst + ': selector', where_, 'good file exactly when %s' % alg.show(g, 140))
        else:
            syms, fns = alg.leaf_syms(gg - g)
            if syms <= {'chi2', 'valid', 'chi', 'cpd'} and fns <= {'at', 'len', 'min', 'max', 'nanmax'}:
                ctx.violation('ALG-17', inst + ': selector', where_, 'written to the good file when %s ; the statement says %s' % (alg.show(gg, 140), alg.show(g, 140)), 'selector')
            else:
                ctx.undecided('ALG-17', inst + ': selector', where_, 'condition %s not decided (it is built from %s)' % (alg.show(gg, 140), sorted(syms | fns))); decided = False
        names = {n for n, m in h.opened}
        ctx.expect({'IN', 'GOOD', 'BAD'} <= names and {'IN', 'GOOD', 'BAD'} <= set(h.closed), 'CFG-4n', inst + ': files', where_, 'reads the input, writes the two named outputs, closes all three',
                   'opened %s, closed %s' % (sorted(map(str, names)), sorted(map(str, h.closed))), 'files')
    # both output files are created (an existing file emptied) on every run, also when no record goes to one of them: the writers are the real
    # FitInfoFile class here, and every open() is recorded with the condition it happens under
    from .. import recfile
    src = Obj(repo.cls('source.source', 'Source'), {'_valid': symarr('valid', (W,), unit=num(1))})
    meta = recfile.make_meta(repo)
    rec = Obj(repo.cls('fit_info', 'FitInfo'), {'source': src, 'chi2': symarr('chi2', (R,), unit=num(1)), 'av': symarr('av', (R,), unit=num(1)), 'sc': symarr('sc', (R,), unit=num(1)), 'meta': meta})
    inst = 'output files created on every run'
    g_one = lt(best, sym('chi'))
    verdicts = []
    for goes, truth in (('every source is well fitted', True), ('every source is badly fitted', False)):
        h = _RealWriters(rec)
        I = Interp(repo, h)
        I.nonzero = [sym('chi')]
        I.assume = [(g_one, truth)]          # the routing test decided: nothing is sent to the other file
        r = I.call(fo, [], {'input_fits': 'IN', 'output_good': 'GOOD', 'output_bad': 'BAD', 'chi': scalar(sym('chi'), num(1))})
        if isinstance(r, Unk) or I.lost or getattr(I, '_unknown_conds', 0):
            verdicts.append((goes, None, repr(r if isinstance(r, Unk) else (I.lost[:1] or 'an undecided test'))))
            continue
        opened = {n_ for n_, mode, cond in h.opens if isinstance(mode, str) and 'w' in mode and alg.is_zero(cond - 1)[0]}
        verdicts.append((goes, {'GOOD', 'BAD'} <= opened, sorted(x for x in ('GOOD', 'BAD') if x not in opened)))
    if any(v[1] is None for v in verdicts):
        ctx.undecided('CFG-4n', inst, where_, 'not modelled with the real file class (%s): %s' % next((v[0], v[2][:120]) for v in verdicts if v[1] is None)); decided = False
    else:
        bad_ = [v for v in verdicts if not v[1]]
        ctx.expect(not bad_, 'CFG-4n', inst, where_, 'both outputs are opened for writing when every source goes to one of them',
                   'when %s the file %s is never opened for writing: whatever it held before the run (sources of an earlier run) is still in it' % ((bad_[0][0], '/'.join(bad_[0][2])) if bad_ else ('', '')), 'stale-output')
    # automatic names
    h = FilterHooks(Obj(repo.cls('fit_info', 'FitInfo'), {}))
    I = Interp(repo, h)
    I.nonzero = [sym('chi')]
    r = I.call(fo, [], {'input_fits': 'IN', 'chi': scalar(sym('chi'), num(1))})
    names = {n for n, m in h.opened if m == 'w'}
    if (isinstance(r, Unk) and not names) or any(not isinstance(n_, str) for n_ in names):
        ctx.undecided('CFG-4n', 'automatic output names', where_, 'not modelled: %r' % (r if isinstance(r, Unk) else sorted(map(str, names)),)); decided = False
    else:
        ctx.expect(names == {'IN_good', 'IN_bad'}, 'CFG-4n', 'automatic output names', where_, "input name + '_good' / '_bad'", 'automatic names are %s' % sorted(map(str, names)), 'auto-names')
    h = FilterHooks(Obj(repo.cls('fit_info', 'FitInfo'), {}))
    I = Interp(repo, h)
    r = I.call(fo, [], {'input_fits': [Obj(repo.cls('fit_info', 'FitInfo'), {})], 'chi': scalar(sym('chi'), num(1))})
    ctx.expect(isinstance(r, Unk) and 'always raises' in r.why, 'CFG-4n', 'non-string input requires explicit names', where_, 'raises when a name is automatic and the input is not a file name',
               'automatic names are accepted for in-memory input', 'auto-name-guard') if not (isinstance(r, Unk) and 'always raises' not in r.why) else ctx.undecided('CFG-4n', 'non-string input requires explicit names', where_, 'not modelled: %r' % (r,))
    return decided


def run(ctx):
    """decided by interpreting filter_output on a generic record (writes recorded with the condition they happen under); the path rules are the
    fall-back when the interpretation has no verdict, and may then only say undecided"""
    from ..roundtrip import SuspectCtx
    if semantic_filter_output(ctx):
        from .c10 import check_inputs
        check_inputs(ctx)
        common.check_ownership(ctx, only=('filter_output',))
        return
    try:
        syntactic_rules(SuspectCtx(ctx, 'filter_output was not decided by interpretation and the path rule, which knows one spelling only, reports'))
    except AnalysisError as e:
        ctx.undecided('CFG-4', 'syntactic fall-back', 'sedfitter/filter_output.py', 'structure not recognised: %s' % e)


def syntactic_rules(ctx):
    repo = ctx.repo
    fo = ctx.fn(repo.func('filter_output', 'filter_output'))
    pars = fo.params
    for need in ('input_fits', 'output_good', 'output_bad', 'chi', 'cpd'):
        if need not in pars:
            raise AnalysisError('filter_output lost parameter %s' % need)
    # writers: names bound to FitInfoFile(..., 'w'); classify good / bad by the name expression they open
    wr = {}
    for t, v, st in stores(fo.node):
        if isinstance(t, ast.Name) and isinstance(v, ast.Call) and is_call_to(v, 'FitInfoFile') and len(v.args) > 1 and const(v.args[1]) == 'w':
            wr.setdefault(t.id, []).append((v, st))
    readers = [t.id for t, v, st in stores(fo.node) if isinstance(t, ast.Name) and isinstance(v, ast.Call) and is_call_to(v, 'FitInfoFile')
               and len(v.args) > 1 and const(v.args[1]) == 'r']
    if len(wr) != 2 or len(readers) != 1:
        raise AnalysisError('filter_output: expected two writers and one reader, found %d/%d' % (len(wr), len(readers)))
    kind = {}
    for name, lst in wr.items():
        texts = ' '.join(up(v.args[0]) for v, _ in lst if isinstance(v.args[0], ast.Name))
        g, b = ('output_good' in texts), ('output_bad' in texts)
        if g == b:
            texts = ' '.join(up(v.args[0]) for v, _ in lst)
            g, b = ("'_good'" in texts), ("'_bad'" in texts)
        if g == b:
            raise AnalysisError('filter_output: cannot classify writer %s (%s)' % (name, texts))
        kind[name] = 'good' if g else 'bad'
    if sorted(kind.values()) != ['bad', 'good']:
        ctx.violation('CFG-4', 'two distinct writers', where(fo), 'writers open %s' % kind, 'writers-not-distinct')
    # ---- CFG-4n names
    for name, lst in wr.items():
        k = kind[name]
        auto = [v for v, st in lst if isinstance(v.args[0], ast.BinOp)]
        expl = [v for v, st in lst if isinstance(v.args[0], ast.Name)]
        good_auto = auto and all(up(v.args[0]).replace('"', "'") == "input_fits + '_%s'" % k for v in auto)
        good_expl = expl and all(v.args[0].id == 'output_%s' % k for v in expl)
        ctx.expect(bool(good_auto and good_expl), 'CFG-4n', '%s writer names' % k, where(fo, lst[0][0]),
                   "automatic name input_fits + '_%s', explicit name output_%s" % (k, k),
                   'writer %s opens %s' % (name, [up(v.args[0]) for v, _ in lst]), 'writer-name')
    raises = [n for n in walk_local(fo.node) if isinstance(n, ast.Raise)]
    guard_ok = any('isinstance(input_fits, str)' in up(t.test) for t in walk_local(fo.node) if isinstance(t, ast.If)) and len(raises) >= 2
    ctx.expect(guard_ok, 'CFG-4n', 'non-string input requires explicit names', where(fo), 'raises when a name is automatic and the input is not a file name',
               'no refusal of automatic names for in-memory input', 'auto-name-guard')
    closes = {chain(c.func) for c in calls(fo.node) if (chain(c.func) or '').endswith('.close')}
    need = {readers[0] + '.close'} | {n + '.close' for n in wr}
    ctx.expect(need <= closes, 'CFG-4n', 'files closed', where(fo), 'closes %s' % sorted(need), 'not closed: %s' % sorted(need - closes), 'not-closed')

    # ---- CFG-4 loop body
    loops = [n for n in walk_local(fo.node) if isinstance(n, ast.For) and isinstance(n.iter, ast.Name) and n.iter.id == readers[0]]
    if len(loops) != 1 or not isinstance(loops[0].target, ast.Name):
        raise AnalysisError('filter_output: record loop not found')
    lp = loops[0]
    x = lp.target.id
    env = {}
    for t, v, st in stores(lp):
        if isinstance(t, ast.Name):
            env[t.id] = None if t.id in env else v      # only single-assignment locals are substituted
    env = {k: v for k, v in env.items() if v is not None}
    bps = paths(lp.body)
    ctx.analysed['paths'] += len(bps)
    selector = None
    for i, p in enumerate(bps, 1):
        acts = path_actions(p)
        desc = p.describe()[:240]
        inst = 'loop path #%d' % i
        if p.exit in ('continue', 'break', 'return'):
            ctx.violation('CFG-4', inst, where(fo, p.exit_node), 'a record can leave the loop body by %s without being written: {%s}' % (p.exit, desc), 'early-exit')
            continue
        if p.exit == 'raise':
            continue
        ws = [a for a in acts if a[0] == 'call' and (chain(a[1].func) or '').endswith('.write') and (chain(a[1].func) or '').split('.')[0] in wr]
        if len(ws) != 1:
            ctx.violation('CFG-4', inst, where(fo), '%d writes on one path (each source must go to exactly one file): {%s}' % (len(ws), desc), 'write-count')
            continue
        w = ws[0][1]
        wi = acts.index(ws[0])
        if not (len(w.args) == 1 and isinstance(w.args[0], ast.Name) and w.args[0].id == x):
            ctx.violation('CFG-4', inst, where(fo, w), 'writes %s, not the record read' % up(w), 'write-arg')
            continue
        muts = [up(a[3]) for a in acts[:wi] if a[0] == 'store' and root_name(a[1]) == x and not isinstance(a[1], ast.Name)]
        muts += [up(a[1]) for a in acts[:wi] if a[0] == 'call' and (chain(a[1].func) or '').startswith(x + '.')
                 and (chain(a[1].func) or '').split('.')[1] in ('keep', 'sort')]
        if muts:
            ctx.violation('CFG-4', inst, where(fo, w), 'record modified before it is written: %s' % muts, 'modified-before-write')
            continue
        target = kind[chain(w.func).split('.')[0]]
        tests = [(a[1], a[2]) for a in acts if a[0] == 'test']
        ctx.ok('CFG-4', inst, where(fo, w), 'one write of the record to the %s file {%s}' % (target, desc))
        if len(tests) == 1:
            selector = selector or {}
            selector[target] = tests[0]
        else:
            selector = 'complex'
    # ---- ALG-17
    if isinstance(selector, dict) and len(selector) == 1:
        ctx.violation('CFG-4', 'both outcomes of the criterion', where(fo, lp), 'every source is written to the %s file, whatever the criterion says' % list(selector)[0], 'one-file')
        selector = None
    if selector is None:
        pass
    elif not isinstance(selector, dict) or set(selector) != {'good', 'bad'} or selector['good'][0] is not selector['bad'][0]:
        ctx.undecided('ALG-17', 'good/bad criterion', where(fo, lp), 'the writer is not selected by a single two-way test')
    else:
        test, truth = selector['good']
        try:
            code = boolfn.to_fn(boolfn.subst(test, env))
            if not truth:
                f0 = code
                code = (f0[0], lambda a, f=f0[1]: not f(a))
            c2 = '%s.chi2[0]' % x
            A, (B, nb) = ('SET', 'chi'), boolfn.LT(c2, 'chi')
            C, (D, nd) = ('SET', 'cpd'), boolfn.LT('%s/%s.source.n_data' % (c2, x), 'cpd')
            ref = ({A, B, C, D}, lambda a: (a[A] and (a[B] != nb)) or (a[C] and (a[D] != nd)))
            extra = code[0] - ref[0]
            import re
            known = {x, 'chi2', 'source', 'n_data', 'n_wav', 'n_fits', 'chi', 'cpd', 'av', 'sc', 'len', 'float', 'int', 'valid', 'flux', 'error'}
            foreign = [a for a in extra if not set(re.findall(r'[A-Za-z_][A-Za-z_0-9]*', ' '.join(str(t) for t in a[1:]))) <= known]
            if extra and not foreign:
                ctx.violation('ALG-17', 'good/bad criterion', where(fo, test), 'the criterion reads %s instead of (chi set and chi2[0] < chi) or (cpd set and chi2[0]/n_data < cpd)' % sorted(extra), 'criterion-atoms')
            elif extra:
                ctx.undecided('ALG-17', 'good/bad criterion', where(fo, test), 'unrecognised atoms %s' % sorted(extra))
            else:
                eq, wit, n = boolfn.equivalent(code, ref)
                ctx.exhaustive = True
                if eq:
                    ctx.ok('ALG-17', 'good/bad criterion', where(fo, test), 'good <=> (chi and chi2[0]<chi) or (cpd and chi2[0]/n_data<cpd) on all %d assignments' % n)
                else:
                    ctx.violation('ALG-17', 'good/bad criterion', where(fo, test), 'criterion differs from the documented one for %s' % {str(k): v for k, v in wit.items()}, 'criterion')
        except boolfn.Unknown as e:
            ctx.undecided('ALG-17', 'good/bad criterion', where(fo, test), str(e))
    # ---- list input accepted; records unchanged
    from .c10 import check_inputs as check_ctor
    check_ctor(ctx)
    common.check_ownership(ctx, only=('filter_output',))


FO = 'sedfitter/filter_output.py'
MUST_FIRE = [
    ('round 12 twin: bool() of the wrong threshold guards the per-data-point test', [(FO, "        if (chi and bestchi < chi) or (cpd and bestcpd < cpd):", "        use_chi, use_cpd = bool(chi), bool(chi)\n        if (use_chi and bool(bestchi < chi)) or (use_cpd and bool(bestcpd < cpd)):")]),
    ('chi^2 per data point given a default threshold: it also applies when only the total chi^2 is asked for', [('sedfitter/filter_output.py', "                  cpd=None):", "                  cpd=3.):")]),
    ('write to both', [(FO, "            fout_good.write(info)\n        else:", "            fout_good.write(info)\n            fout_bad.write(info)\n        else:")]),
    ('condition inverted', [(FO, "if (chi and bestchi < chi) or (cpd and bestcpd < cpd):", "if not ((chi and bestchi < chi) or (cpd and bestcpd < cpd)):")]),
    ('or -> and', [(FO, "if (chi and bestchi < chi) or (cpd and bestcpd < cpd):", "if (chi and bestchi < chi) and (cpd and bestcpd < cpd):")]),
    ('keep before write', [(FO, "        bestchi = info.chi2[0]\n", "        info.keep(('N', 1))\n        bestchi = info.chi2[0]\n")]),
    ('cpd divides by n_wav', [(FO, "bestcpd = info.chi2[0] / float(info.source.n_data)", "bestcpd = info.chi2[0] / float(info.source.n_wav)")]),
    ('continue before write', [(FO, "        bestchi = info.chi2[0]\n", "        if info.n_fits == 0:\n            continue\n        bestchi = info.chi2[0]\n")]),
    ('good and bad names swapped', [(FO, "fout_good = FitInfoFile(input_fits + '_good', 'w')", "fout_good = FitInfoFile(input_fits + '_bad', 'w')")]),
    ('threshold on the worst fit', [(FO, "bestchi = info.chi2[0]", "bestchi = info.chi2[-1]")]),
    ('comparison flipped', [(FO, "(chi and bestchi < chi)", "(chi and bestchi > chi)")]),
    ('bad file never closed', [(FO, "    fout_bad.close()\n", "")]),
    ('bad branch writes to good', [(FO, "        else:\n            fout_bad.write(info)", "        else:\n            fout_good.write(info)")]),
    ('cpd compared with chi', [(FO, "(cpd and bestcpd < cpd)", "(cpd and bestcpd < chi)")]),
]
MUST_SILENT = [
    ('round 12: whether each threshold is given found once with bool(), the writer picked from a dictionary keyed by the outcome', [(FO, "        if (chi and bestchi < chi) or (cpd and bestcpd < cpd):", "        use_chi, use_cpd = bool(chi), bool(cpd)\n        if (use_chi and bool(bestchi < chi)) or (use_cpd and bool(bestcpd < cpd)):")]),
    ('criterion via a named flag', [(FO, "        if (chi and bestchi < chi) or (cpd and bestcpd < cpd):\n            fout_good.write(info)", "        good = (chi and bestchi < chi) or (cpd and bestcpd < cpd)\n        if good:\n            fout_good.write(info)")]),
    ('comparison written the other way', [(FO, "(chi and bestchi < chi)", "(chi and chi > bestchi)")]),
    ('branches exchanged with negation', [(FO, "        if (chi and bestchi < chi) or (cpd and bestcpd < cpd):\n            fout_good.write(info)\n        else:\n            fout_bad.write(info)",
                                           "        if not ((chi and bestchi < chi) or (cpd and bestcpd < cpd)):\n            fout_bad.write(info)\n        else:\n            fout_good.write(info)")]),
]


def thorough(ctx):
    from .. import selftest
    selftest.run(ctx, MUST_FIRE, MUST_SILENT)
