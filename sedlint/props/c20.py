"""C20 Source lines are parsed by the documented column layout or rejected."""
import ast
from fractions import Fraction

from .. import alg
from ..alg import Poly, sym
from ..astutil import up, walk_local, stores, chain, const, calls, paths
from ..rules import where, path_actions, pickle_state_agreement, getstate_keys
from ..loader import AnalysisError
from ..staterules import state_roundtrip
from ..interp import Interp, Hooks, Foreign, Arr, Obj, Unk, ClassRef, symarr, num, decide_with, count_atom
from ..roundtrip import SuspectCtx

EXPLANATION = (
    "(ALG-19) Source.from_ascii, as index arithmetic in normal form: n = int((len-3)/3) equals n when len = 3(n+1); name, x, y come from columns 0,1,2; "
    "flag j from column 3+j; flux j from column 3+n+2j and error j from column 3+n+2j+1 (slices composed as affine maps offset + stride*j); a line with fewer "
    "than three columns raises EOFError before anything is parsed. to_ascii emits name, x, y, the flags, then (flux[j], error[j]) in that order for each j - the "
    "inverse layout. (CFG-12) rejection: valid is assigned before flux and error, and the valid/flux/error setters raise when the length differs from n_wav "
    "(which is len(valid) once valid is set); with the arithmetic above a column count other than 3(n+1) gives len(flux) = n+1 != n. (FLAG-2) the flag "
    "predicate of the valid setter, evaluated on every integer in [-5, 20], rejects exactly the values outside {0,1,2,3,4,9}; non-integers are refused. "
    "(AGREE-1) to_dict/from_dict and the pickle state name every data attribute.")
NOT_DECIDED = ["printed precision beyond the format specifications (11.3e, 9.5f)", "numpy's string-to-number parsing (library)"]
ASSUMPTIONS = ["python slice semantics", "the lemma: for len-3 = 3n+r, r in {1,2}, the strided split gives len(flux) = n+1"]
TRUSTED = ["python ast", "sedlint E4"]
MIN = {'ALG-19': 10, 'CFG-12': 7, 'FLAG-2': 2, 'AGREE-1': 8}
TECHNIQUE = 'static analysis: slice/stride composition as affine index maps in polynomial normal form; guard-dominates-use path rules; finite-domain evaluation of the flag predicate'

N = sym('n')
LEN = sym('LEN')


class LenHooks(Hooks):
    """configuration: concrete lengths; a test is decided when its value depends on lengths only"""
    def __init__(self, consts):
        self.consts = consts

    def decide(self, interp, test, env, mod):
        try:
            v = interp.expr(test, dict(env), mod)
        except Exception:
            return None
        if isinstance(v, Arr) and v.ndim == 0 and not v.poly.is_const():
            syms, fns = alg.leaf_syms(v.poly)
            if not syms and fns <= {'len'}:
                return decide_with(interp, test, env, mod, consts=self.consts)
        return None

    def setter(self, interp, obj, name, val, setter_fi, node):
        return NotImplemented            # assignments go through the real setters (they are what is being checked)


class View:
    """columns offset + stride*j (j >= 0), optional exclusive stop; ``rows`` set for a (n, k) reshape of a run of columns"""
    def __init__(self, off, stride=1, stop=None, scalar=False, rows=None):
        self.off, self.stride, self.stop, self.scalar, self.rows = off, stride, stop, scalar, rows


def ev_int(e, env):
    """integer-valued expression -> Poly (in LEN and n) or None"""
    if isinstance(e, ast.Constant) and isinstance(e.value, (int, float)) and not isinstance(e.value, bool):
        return Poly.const(Fraction(e.value).limit_denominator())
    if isinstance(e, ast.Name):
        return env.get(e.id) if isinstance(env.get(e.id), Poly) else None
    if isinstance(e, ast.Call):
        cn = chain(e.func) or ''
        if cn == 'len' and len(e.args) == 1:
            v_ = ev_view(e.args[0], env)
            if v_ is not None and not v_.scalar and v_.stride == 1 and v_.rows is None:
                return (LEN if v_.stop is None else v_.stop) - v_.off          # number of columns from off up to the stop / the end of the line
        if cn.split('.')[-1] in ('int', 'int32', 'int64', 'floor') and len(e.args) == 1:
            inner = ev_int(e.args[0], env)
            return None if inner is None else alg.mk_fn('int', alg.P(inner))
        return None
    if isinstance(e, ast.BinOp):
        a, b = ev_int(e.left, env), ev_int(e.right, env)
        if a is None or b is None:
            return None
        if isinstance(e.op, ast.Add): return a + b
        if isinstance(e.op, ast.Sub): return a - b
        if isinstance(e.op, ast.Mult): return a * b
        if isinstance(e.op, ast.Div): return a / b
        if isinstance(e.op, ast.FloorDiv): return alg.mk_fn('int', alg.P(a / b))
    if isinstance(e, ast.UnaryOp) and isinstance(e.op, ast.USub):
        a = ev_int(e.operand, env)
        return None if a is None else -a
    return None


def under_layout(p):
    """substitute LEN := 3n+3 and drop int() around integer polynomials"""
    p = alg.subst_sym(p, {'LEN': lambda labs: 3 * N + 3})
    def f(a):
        if a[0] == 'fn' and a[1] == 'int':
            inner = Poly.from_key(a[2][1])
            if all(c.denominator == 1 for c in inner.t.values()):
                return inner
        return None
    return alg.rebuild(p, f)


def ev_view(e, env):
    """expression denoting a sequence/element of columns -> View or None"""
    if isinstance(e, ast.Name):
        v = env.get(e.id)
        return v if isinstance(v, View) else None
    if isinstance(e, ast.Call):
        cn = chain(e.func) or ''
        if cn.split('.')[-1] in ('array', 'asarray', 'float64', 'float', 'int', 'float32', 'str', 'list') and e.args:
            return ev_view(e.args[0], env)
        if isinstance(e.func, ast.Attribute) and e.func.attr == 'reshape':
            base = ev_view(e.func.value, env)
            shape = e.args[0].elts if len(e.args) == 1 and isinstance(e.args[0], ast.Tuple) else e.args
            if base is not None and not base.scalar and base.stride == 1 and len(shape) == 2:
                k = ev_int(shape[1], env)
                if k is not None and k.is_const() and k.const_value().denominator == 1:
                    return View(base.off, 1, base.stop, rows=int(k.const_value()))
        return None
    if isinstance(e, ast.Subscript):
        base = ev_view(e.value, env)
        if base is None or base.scalar:
            return None
        s = e.slice
        if base.rows is not None:
            # x.reshape(n, k)[:, c] : every k-th column starting at c
            if isinstance(s, ast.Tuple) and len(s.elts) == 2 and isinstance(s.elts[0], ast.Slice) and s.elts[0].lower is None and s.elts[0].upper is None and s.elts[0].step is None:
                c = ev_int(s.elts[1], env)
                if c is not None and c.is_const():
                    return View(base.off + c, base.rows, base.stop)
            return None
        if isinstance(s, ast.Slice):
            lo = ev_int(s.lower, env) if s.lower is not None else Poly()
            hi = ev_int(s.upper, env) if s.upper is not None else None
            st = ev_int(s.step, env) if s.step is not None else Poly.const(1)
            if lo is None or st is None or not st.is_const() or (s.upper is not None and hi is None):
                return None
            k = int(st.const_value())
            if k < 1:
                return None
            stop = None if hi is None else base.off + hi * base.stride
            if base.stop is not None:
                stop = base.stop if stop is None else stop     # conservative: keep the inner stop
            return View(base.off + lo * base.stride, base.stride * k, stop)
        i = ev_int(s, env)
        if i is None:
            return None
        return View(base.off + i * base.stride, 0, None, scalar=True)
    return None



def flag2_syntactic(ctx, repo, vs):
    val = vs.params[1]
    pred = None
    intcheck = False
    for n in walk_local(vs.node):
        if isinstance(n, ast.If) and any(isinstance(x, ast.Raise) for x in n.body):
            t = n.test
            if isinstance(t, ast.Call) and (chain(t.func) or '').endswith('any') and t.args:
                src = up(t.args[0])
                if 'astype(int)' in src and '!=' in src:
                    intcheck = True
                elif pred is None and ('<' in src or '>' in src):
                    pred = t.args[0]
    ctx.expect(intcheck, 'FLAG-2', 'non-integer flags refused', where(vs), 'raises when value.astype(int) != value', 'no integrality check', 'integrality')
    if pred is None:
        ctx.undecided('FLAG-2', 'accepted flag set', where(vs), 'range predicate not found')
    else:
        def evalp(e, v):
            if isinstance(e, ast.Name) and e.id == val:
                return v
            if isinstance(e, ast.Constant):
                return e.value
            if isinstance(e, ast.Compare) and len(e.ops) == 1:
                a, b = evalp(e.left, v), evalp(e.comparators[0], v)
                import operator
                return {ast.Lt: operator.lt, ast.Gt: operator.gt, ast.LtE: operator.le, ast.GtE: operator.ge, ast.Eq: operator.eq, ast.NotEq: operator.ne}[type(e.ops[0])](a, b)
            if isinstance(e, ast.BinOp) and isinstance(e.op, (ast.BitOr, ast.BitAnd)):
                a, b = evalp(e.left, v), evalp(e.right, v)
                return (a or b) if isinstance(e.op, ast.BitOr) else (a and b)
            if isinstance(e, ast.UnaryOp) and isinstance(e.op, (ast.Invert, ast.Not)):
                return not evalp(e.operand, v)
            raise KeyError(up(e))
        try:
            rejected = {v for v in range(-5, 21) if evalp(pred, v)}
            accepted = set(range(-5, 21)) - rejected
            ctx.exhaustive = True
            ctx.expect(accepted == {0, 1, 2, 3, 4, 9}, 'FLAG-2', 'accepted flag set', where(vs, pred), 'accepts exactly {0,1,2,3,4,9} on [-5,20]',
                       'accepts %s' % sorted(accepted), 'flag-set')
        except KeyError as e:
            ctx.undecided('FLAG-2', 'accepted flag set', where(vs, pred), 'predicate form %s' % e)


def from_ascii_symbolic(ctx, repo, ci, fa):
    """the column views of from_ascii for a symbolic number of filters (reads the assignments of the function as they are written)"""
    line = fa.params[1]
    env = {}
    obj = None
    assigned = {}
    order = []
    first_raise = None
    for st in fa.node.body:
        if isinstance(st, ast.If) and first_raise is None:
            t = up(st.test).replace(' ', '')
            if any(isinstance(x, ast.Raise) for x in st.body):
                first_raise = (st, t, [up(x.exc) for x in st.body if isinstance(x, ast.Raise)], list(order))
        if not isinstance(st, ast.Assign) or len(st.targets) != 1:
            continue
        t, v = st.targets[0], st.value
        if isinstance(t, ast.Tuple) and all(isinstance(x, ast.Name) for x in t.elts):
            vv = ev_view(v, env)
            if vv is not None and not vv.scalar and vv.stride == 1 and vv.stop is not None and alg.is_zero(vv.stop - vv.off - len(t.elts))[0]:
                for k_, x in enumerate(t.elts):
                    env[x.id] = View(vv.off + k_, 0, None, scalar=True)      # a, b, c = cols[:3]
            continue
        if isinstance(t, ast.Name):
            if isinstance(v, ast.Call) and (chain(v.func) or '') == line + '.split' and not v.args:
                env[t.id] = View(Poly())
                continue
            if isinstance(v, ast.Call) and chain(v.func) == fa.params[0]:
                obj = t.id
                continue
            vi = ev_int(v, env)
            if vi is not None:
                env[t.id] = under_layout(vi)
                continue
            vv = ev_view(v, env)
            if vv is not None:
                env[t.id] = vv
            continue
        if isinstance(t, ast.Attribute) and isinstance(t.value, ast.Name) and t.value.id == obj:
            assigned[t.attr] = (ev_view(v, env), st)
            order.append(t.attr)
    if obj is None or not any(isinstance(v, View) for v in env.values()):
        raise AnalysisError('from_ascii: column split / object construction not found')
    nw = [k for k, v in env.items() if isinstance(v, Poly)]
    n_ok = any(alg.is_zero(env[k] - N)[0] for k in nw)
    if not nw:
        ctx.undecided('ALG-19', 'n = (len - 3) / 3', where(fa), 'no integer local computed from the number of columns was recognised')
    else:
        ctx.expect(n_ok, 'ALG-19', 'n = (len - 3) / 3', where(fa), 'number of filters == n when the line has 3(n+1) columns',
                   'filter count evaluates to %s for a line of 3(n+1) columns' % {k: alg.show(env[k]) for k in nw}, 'n-arith')
    want = {'name': (Poly(), 0), 'x': (Poly.const(1), 0), 'y': (Poly.const(2), 0), 'valid': (Poly.const(3), 1), 'flux': (3 + N, 2), 'error': (4 + N, 2)}
    stops = {'valid': 3 + N}
    for attr, (off, stride) in want.items():
        inst = 'columns of %s' % attr
        got = assigned.get(attr)
        if got is None:
            ctx.violation('ALG-19', inst, where(fa), '%s is never assigned from the line' % attr, 'unassigned')
            continue
        v, st = got
        if v is None:
            ctx.undecided('ALG-19', inst, where(fa, st), 'column expression not modelled: %s' % up(st))
            continue
        okk = alg.is_zero(under_layout(v.off) - off)[0] and v.stride == stride
        if attr in stops:
            okk = okk and v.stop is not None and alg.is_zero(under_layout(v.stop) - stops[attr])[0]
        ctx.expect(okk, 'ALG-19', inst, where(fa, st), '%s[j] <- column %s%s' % (attr, alg.show(off), (' + %d*j' % stride) if stride else ''),
                   '%s[j] <- column %s + %d*j (stop %s)' % (attr, alg.show(under_layout(v.off)), v.stride, alg.show(under_layout(v.stop)) if v.stop is not None else None), 'layout')
    # a surplus column must change the length of flux/error (so the setters' length checks can reject the line),
    # unless the column count is compared with 3(n+1) explicitly
    explicit = False
    for n_ in walk_local(fa.node):
        if isinstance(n_, ast.If) and any(isinstance(x, ast.Raise) for x in n_.body) and 'len(' in up(n_.test) and ('%' in up(n_.test) or '3 *' in up(n_.test) or '* 3' in up(n_.test)):
            explicit = True
    for attr in ('flux', 'error'):
        got = assigned.get(attr)
        if got is None or got[0] is None:
            continue
        v, st = got
        ctx.expect(v.stop is None or explicit, 'CFG-12', 'surplus columns reach %s' % attr, where(fa, st), 'the run of columns feeding %s is open-ended: a line with extra columns gives it the wrong length and is rejected' % attr,
                   'the columns feeding %s stop at column %s: extra columns at the end of a line are silently dropped instead of being rejected' % (attr, alg.show(under_layout(v.stop)) if v.stop is not None else ''), 'bounded-slice')
    # EOF guard first
    colvars = [k for k, v in env.items() if isinstance(v, View) and v.off.is_zero() and v.stride == 1 and v.stop is None and not v.scalar]
    tests_ok = set()
    for cv in colvars + ['%s.split()' % line]:
        tests_ok |= {'len(%s)<3' % cv, '3>len(%s)' % cv, 'len(%s)<=2' % cv}
    okk = first_raise is not None and first_raise[1] in tests_ok and any('EOFError' in x for x in first_raise[2]) and not first_raise[3]
    ctx.expect(bool(okk), 'ALG-19', 'fewer than three columns ends the input', where(fa, first_raise[0] if first_raise else None),
               'raises EOFError before any field is parsed', 'guard is %s' % (list(first_raise[1:3]) if first_raise else None,), 'eof-guard')
    # ---- CFG-12 (assignment order)
    ctx.expect(order.index('valid') < order.index('flux') and order.index('valid') < order.index('error') if all(k in order for k in ('valid', 'flux', 'error')) else False,
               'CFG-12', 'valid assigned before flux and error', where(fa), 'assignment order %s' % order, 'assignment order %s: the length cross-check has nothing to compare with' % order, 'order')


class _Tok(Foreign):
    """token k of the input line: a string that converts to the number tok<k>"""
    py_types = ('str',)

    def __init__(self, k):
        self.k = k

    def as_value(self):
        return Arr((), sym('tok%d' % self.k), unit=num(1))


class _Line(Foreign):
    def __init__(self, n):
        self.n = n

    def sl_method(self, interp, name, args, kw, node):
        if name == 'split' and not args:
            return [_Tok(k) for k in range(self.n)]
        if name == 'strip':
            return self
        return NotImplemented


class RealSetters(Hooks):
    def setter(self, interp, obj, name, val, setter_fi, node):
        return NotImplemented            # assignments go through the real setters: their length checks are part of what is decided


def from_ascii_scenarios(ctx, repo, ci, fa):
    """Source.from_ascii interpreted on lines of a concrete number of symbolic tokens: 3(n+1) tokens for n = 0..3 must give name, x, y, flags, fluxes and
    errors from the documented columns; one or two tokens too many must be refused (the setters' length checks see it); fewer than three tokens end the
    input.  -> True (all decided OK) | False (no verdict) | 'violation'"""
    verdict = True
    for ntok in (0, 1, 2, 3, 6, 9, 12, 4, 5, 7, 8, 10, 11, 13):
        I = Interp(repo, RealSetters())
        try:
            r = I.call(fa, [ClassRef(ci), _Line(ntok)])
        except (AnalysisError, RecursionError) as ex:
            r = Unk(str(ex)[:100])
        raised = isinstance(r, Unk) and 'always raises' in r.why
        where_ = where(fa)
        if ntok < 3:
            inst = 'fewer than three columns ends the input (%d column%s)' % (ntok, '' if ntok == 1 else 's')
            if raised and r.exc == 'EOFError':
                ctx.ok('ALG-19', inst, where_, 'raises EOFError before any field is parsed')
            elif raised and r.exc is not None:
                ctx.violation('ALG-19', inst, where_, 'a line of %d columns raises %s, not the EOFError that ends the input' % (ntok, r.exc), 'eof-guard'); verdict = 'violation'
            elif isinstance(r, Unk):
                ctx.undecided('ALG-19', inst, where_, 'not modelled: %r' % (r,)); verdict = verdict and False
            else:
                ctx.violation('ALG-19', inst, where_, 'a line of %d columns is parsed into a source' % ntok, 'eof-guard'); verdict = 'violation'
            continue
        if ntok % 3:
            inst = 'a line of %d columns (not 3(n+1)) is refused' % ntok
            if raised:
                ctx.ok('CFG-12', inst, where_, 'the flags, fluxes and errors cut from it have different lengths and a setter raises')
            elif isinstance(r, Unk):
                ctx.undecided('CFG-12', inst, where_, 'not modelled: %r' % (r,)); verdict = verdict and False
            elif I.lost or any(g[4] == 'raise-guard' and len(g) > 5 and isinstance(g[5], Arr) and 'len' in alg.leaf_syms(g[5].poly)[1] for g in I.assumed) \
                    or any(isinstance(v_, Unk) or (isinstance(v_, Arr) and v_.ndim == 1 and v_.dims[0] is not None and v_.dims[0] not in I.axis_len) for v_ in r.attrs.values()):
                # the line went through, but past a length test the analysis could not decide (an array whose length is not known here): no verdict
                ctx.undecided('CFG-12', inst, where_, 'a length check on the way was not decided (the lengths of the arrays cut from the line are not all known)'); verdict = verdict and False
            else:
                ctx.violation('CFG-12', inst, where_, 'a line with %d surplus column%s is parsed into a source instead of being refused' % (ntok % 3, '' if ntok % 3 == 1 else 's'), 'bounded-slice')
                verdict = 'violation'
            continue
        n = ntok // 3 - 1
        inst = 'from_ascii on a line of 3(n+1) columns, n = %d' % n
        if not isinstance(r, Obj):
            if raised:
                ctx.violation('ALG-19', inst, where_, 'a well-formed line of %d columns is refused' % ntok, 'layout'); verdict = 'violation'
            else:
                ctx.undecided('ALG-19', inst, where_, 'not modelled: %r' % (r,)); verdict = verdict and False
            continue
        problems, unknown = [], []
        nm = r.attrs.get('_name')
        if not (isinstance(nm, _Tok) and nm.k == 0):
            (problems if isinstance(nm, _Tok) else unknown).append('name <- %r' % (nm,))
        for attr, k in (('_x', 1), ('_y', 2)):
            v = r.attrs.get(attr)
            if not (isinstance(v, Arr) and v.ndim == 0 and v.poly == sym('tok%d' % k)):
                (problems if isinstance(v, Arr) and alg.leaf_syms(v.poly)[0] <= {'tok%d' % q for q in range(ntok)} else unknown).append('%s <- %s' % (attr[1:], alg.show(v.poly, 60) if isinstance(v, Arr) else v))
        for attr, col in (('_valid', lambda j: 3 + j), ('_flux', lambda j: 3 + n + 2 * j), ('_error', lambda j: 4 + n + 2 * j)):
            v = r.attrs.get(attr)
            if not (isinstance(v, Arr) and v.ndim == 1 and v.mask is None):
                unknown.append('%s is %r' % (attr[1:], v))
                continue
            lab = v.dims[0]
            ln = 1 if lab is None else I.axis_len.get(lab)
            if ln is None:
                unknown.append('length of %s' % attr[1:])
                continue
            if ln != n:
                problems.append('%s has %d elements for %d filters' % (attr[1:], ln, n))
                continue
            for j in range(n):
                got = v.poly if lab is None else alg.index_at(v.poly, lab, Poly.const(j))
                if got != sym('tok%d' % col(j)):
                    syms_, fns_ = alg.leaf_syms(got)
                    (problems if syms_ <= {'tok%d' % q for q in range(ntok)} and not fns_ else unknown).append('%s[%d] <- %s, not column %d' % (attr[1:], j, alg.show(got, 60), col(j)))
        if problems:
            ctx.violation('ALG-19', inst, where_, '; '.join(problems[:4]), 'layout'); verdict = 'violation'
        elif unknown:
            ctx.undecided('ALG-19', inst, where_, '; '.join(unknown[:3])); verdict = verdict and False
        else:
            ctx.ok('ALG-19', inst, where_, 'name, x, y <- columns 0..2 ; flags <- the next n ; (flux, error)[j] <- columns 3+n+2j, 4+n+2j')
    return verdict


def run(ctx):
    from ..roundtrip import CorroborateCtx
    repo = ctx.repo
    ci = repo.cls('source.source', 'Source')
    fa = ctx.fn(repo.func('source.source', 'Source.from_ascii'))
    ta = ctx.fn(repo.func('source.source', 'Source.to_ascii'))
    sem = from_ascii_scenarios(ctx, repo, ci, fa)
    sub = CorroborateCtx(ctx, 'decided by interpretation on lines of 0..13 columns') if sem is True else (
        SuspectCtx(ctx, 'from_ascii was not decided by interpretation and the symbolic column rule, which reads one layout only, reports') if sem is False else None)
    if sub is not None:
        try:
            from_ascii_symbolic(sub, repo, ci, fa)
        except AnalysisError as e:
            sub.undecided('ALG-19', 'symbolic column views of from_ascii', where(fa), 'layout not recognised: %s' % e)
    to_ascii_rules(ctx, repo, ci, ta)
    object_rules(ctx, repo, ci)


def to_ascii_scenarios(ctx, repo, ci, ta):
    """Source.to_ascii interpreted on sources of n = 0..3 filters with symbolic contents: the values formatted into the line, in order, must be name, x, y,
    the n flags, then (flux[j], error[j]) for each filter, separated by blanks, and the name must not be cut (a precision on a string field cuts it).
    -> True | False (no verdict) | 'violation'"""
    import re as _re
    from ..interp import Fmt
    verdict = True
    where_ = where(ta)
    W = 'w'
    for n in (0, 1, 2, 3):
        I = Interp(repo)
        I.axis_len[W] = n
        o = Obj(ci, {'_name': _Tok(0), '_x': Arr((), sym('x'), unit=num(1)), '_y': Arr((), sym('y'), unit=num(1)), '_valid': symarr('valid', (W,), unit=num(1)),
                     '_flux': symarr('flux', (W,), unit=num(1)), '_error': symarr('err', (W,), unit=num(1))})
        try:
            r = I.call(ta, [], selfv=o)
        except (AnalysisError, RecursionError) as ex:
            r = Unk(str(ex)[:100])
        inst = 'to_ascii of a source with %d filter%s' % (n, '' if n == 1 else 's')
        if isinstance(r, str) and n == 0:
            r = Fmt(r.replace('%', '%%'), ())
        if not isinstance(r, Fmt):
            ctx.undecided('ALG-19', inst, where_, 'line not modelled: %r' % (r,)); verdict = verdict and False
            continue
        want = [('name', None), ('x', sym('x')), ('y', sym('y'))] + [('valid[%d]' % j, alg.index_at(sym('valid', W), W, Poly.const(j))) for j in range(n)]
        for j in range(n):
            want += [('flux[%d]' % j, alg.index_at(sym('flux', W), W, Poly.const(j))), ('error[%d]' % j, alg.index_at(sym('err', W), W, Poly.const(j)))]
        got = list(r.values)
        problems, unknown = [], []
        if len(got) != len(want):
            problems.append('%d values are written for %d expected' % (len(got), len(want)))
        else:
            for (nm, ref), v in zip(want, got):
                if ref is None:
                    if not (isinstance(v, _Tok) and v.k == 0):
                        problems.append('first field is %r, not the name' % (v,))
                elif not (isinstance(v, Arr) and v.ndim == 0 and v.poly == ref):
                    (problems if isinstance(v, Arr) and alg.leaf_syms(v.poly)[0] <= {'x', 'y', 'valid', 'flux', 'err'} else unknown).append('field for %s holds %s' % (nm, alg.show(v.poly, 50) if isinstance(v, Arr) else v))
        # every field separated from the next by a blank; the name field must not carry a precision below 40 characters
        pieces = _re.split(r'%[-0-9.]*[a-zA-Z]', r.fmt)
        if any(not p_.strip() == '' or p_ == '' for p_ in pieces[1:-1]):
            problems.append('fields are not separated by blanks: %r' % r.fmt[:60])
        m_ = _re.match(r'\s*%(-?\d*)(?:\.(\d+))?s', r.fmt)
        if m_ and m_.group(2) is not None and int(m_.group(2)) < 40:
            problems.append('name field %%%s.%ss cuts names longer than %s characters: formatting and parsing back does not preserve the name' % (m_.group(1), m_.group(2), m_.group(2)))
        dtf = [f for f in I.findings if f.kind == 'dtype']
        if dtf:
            problems.append(dtf[0].msg + ' (line %s): the value written is not the value held' % dtf[0].line)
        if problems:
            ctx.violation('ALG-19', inst, where_, '; '.join(problems[:3]), 'to-ascii-layout'); verdict = 'violation'
        elif unknown:
            ctx.undecided('ALG-19', inst, where_, '; '.join(unknown[:3])); verdict = verdict and False
        else:
            ctx.ok('ALG-19', inst, where_, 'name, x, y ; one flag per filter ; then (flux[j], error[j]) per filter ; blanks between fields ; the name is not cut')
    return verdict


def to_ascii_rules(ctx, repo, ci, ta):
    from ..roundtrip import CorroborateCtx
    sem = to_ascii_scenarios(ctx, repo, ci, ta)
    if sem == 'violation':
        return
    ctx = CorroborateCtx(ctx, 'decided by interpretation on sources of 0..3 filters') if sem is True else SuspectCtx(
        ctx, 'to_ascii was not decided by interpretation and the syntactic rule, which reads one spelling only, reports')
    import re as _re
    # to_ascii inverse layout: the fields emitted, in source order, whatever way the pieces are joined
    fmt_calls = [c for c in calls(ta.node) if isinstance(c.func, ast.Attribute) and c.func.attr == 'format' and isinstance(c.func.value, ast.Constant) and isinstance(c.func.value.value, str)]
    fmt_calls.sort(key=lambda c: (c.lineno, c.col_offset))
    me = ta.params[0]
    fields = []
    for c in fmt_calls:
        for m_ in _re.finditer(r'\{(\d*)(?::([^}]*))?\}', c.func.value.value):
            k = int(m_.group(1)) if m_.group(1) else len([f for f in fields if f[2] is c])
            if k < len(c.args):
                fields.append((up(c.args[k]), m_.group(2) or '', c))
    seq = [(a, spec) for a, spec, c in fields]
    if len(seq) < 6:
        ctx.undecided('ALG-19', 'to_ascii emits the inverse layout', where(ta), 'formatted fields not recognised: %s' % seq)
    else:
        head = [a for a, sp in seq[:3]]
        loopvars = {n_.target.id: up(n_.iter) for n_ in walk_local(ta.node) if isinstance(n_, (ast.For, ast.comprehension)) and isinstance(n_.target, ast.Name)}
        flag_fields = [(a, sp) for a, sp in seq[3:] if loopvars.get(a) == '%s.valid' % me or a.startswith('%s.valid[' % me)]
        rest = [(a, sp) for a, sp in seq[3:] if (a, sp) not in flag_fields]
        pair_ok = len(rest) == 2 and rest[0][0].startswith('%s.flux[' % me) and rest[1][0].startswith('%s.error[' % me) and rest[0][0].split('[')[1] == rest[1][0].split('[')[1]
        order_ok = bool(flag_fields) and seq.index(flag_fields[0]) < seq.index(rest[0]) if rest and flag_fields else False
        ok = head == ['%s.name' % me, '%s.x' % me, '%s.y' % me] and len(flag_fields) == 1 and pair_ok and order_ok
        ctx.expect(ok, 'ALG-19', 'to_ascii emits the inverse layout', where(ta), 'name, x, y ; one flag per filter ; then (flux[j], error[j]) per filter',
                   'fields are emitted as %s' % [a for a, sp in seq], 'to-ascii-layout')
        nspec = seq[0][1]
        trunc = _re.search(r'\.(\d+)s?$', nspec)
        ctx.expect(not trunc or int(trunc.group(1)) >= 40, 'ALG-19', 'to_ascii does not truncate the name', where(ta), 'name field %r pads but never cuts' % nspec,
                   'name field %r cuts names longer than %s characters: formatting and parsing back does not preserve the name' % (nspec, trunc.group(1) if trunc else ''), 'name-truncated')


def object_rules(ctx, repo, ci):
    # the setters are interpreted on concrete pairs (length offered, length already fixed): they must raise exactly when the two differ,
    # including when the fixed length is 0; tests are decided on their value (helpers and properties inlined), not on their spelling
    LV, LW = 'V', 'w'
    for attr in ('valid', 'flux', 'error'):
        setter = ctx.fn(repo.func('source.source', 'Source.%s@setter' % attr))
        bad, unk = [], []
        for a, b in ((5, 7), (7, 5), (4, 0), (0, 3), (1, 2), (5, 5), (0, 0), (1, 1)):
            h = LenHooks({count_atom(LV): a, count_atom(LW): b})
            I = Interp(repo, h)
            o = Obj(ci, {'_valid': symarr('valid', (LW,), unit=num(1)), '_flux': symarr('flux', (LW,), unit=num(1)), '_error': symarr('err', (LW,), unit=num(1))})
            if attr == 'valid':
                o.attrs['_valid'] = None       # n_wav then comes from the fluxes already stored
            out = I.call(setter, [symarr('val', (LV,), unit=num(1))], selfv=o)
            raised = isinstance(out, Unk) and 'always raises' in out.why
            open_guards = [g for g in I.assumed if g[4] == 'raise-guard' and len(g) > 5 and (not isinstance(g[5], Arr) or 'len' in alg.leaf_syms(g[5].poly)[1])]
            if isinstance(out, Unk) and not raised:
                unk.append('(%d,%d): %s' % (a, b, out.why))
            elif not raised and open_guards:
                unk.append('(%d,%d): guard %s not decided' % (a, b, open_guards[0][2]))
            elif raised != (a != b):
                bad.append('a value of length %d is %s when the length already fixed is %d' % (a, 'refused' if raised else 'accepted', b))
        if unk and not bad:
            ctx.undecided('CFG-12', '%s setter rejects a wrong length' % attr, where(setter), '; '.join(unk[:3]))
        else:
            ctx.expect(not bad, 'CFG-12', '%s setter rejects a wrong length' % attr, where(setter), 'raises exactly when len(value) differs from the length already fixed (8 length pairs, 0 included)',
                       '; '.join(bad[:3]), 'length-check')
    nwp = ctx.fn(repo.func('source.source', 'Source.n_wav@getter'))
    I = Interp(repo)
    o = Obj(ci, {'_valid': symarr('valid', (LW,), unit=num(1)), '_flux': symarr('flux', ('x1',), unit=num(1)), '_error': symarr('err', ('x2',), unit=num(1))})
    got = I.call(nwp, [], selfv=o)
    if isinstance(got, Arr):
        ctx.expect(got.poly == alg.count(LW), 'CFG-12', 'n_wav is len(valid) once valid is set', where(nwp), 'n_wav == len(valid) when valid is set',
                   'n_wav evaluates to %s' % alg.show(got.poly, 80), 'n-wav')
    else:
        ctx.undecided('CFG-12', 'n_wav is len(valid) once valid is set', where(nwp), 'value not modelled: %r' % (got,))
    # ---- FLAG-2: the flag setter interpreted on arrays holding one value everywhere, for every integer of [-5, 20] and two fractional values
    vs = ctx.fn(repo.func('source.source', 'Source.valid@setter'))
    accepted, refused, unknown = set(), set(), {}
    from fractions import Fraction
    for k in list(range(-5, 21)) + [Fraction(1, 2), Fraction(7, 2)]:
        I = Interp(repo)
        I.axis_len[LW] = 3
        o = Obj(ci, {'_valid': None, '_flux': None, '_error': None, '_name': None})
        init_ = repo.find_member(ci, '__init__')
        try:
            r = I.call(vs, [Arr((LW,), num(k), unit=num(1))], selfv=o)
        except (AnalysisError, RecursionError) as ex:
            r = Unk(str(ex)[:80])
        stored = o.attrs.get('_valid')
        if isinstance(r, Unk) and 'always raises' in r.why:
            refused.add(k)
        elif not isinstance(r, Unk) and isinstance(stored, Arr) and stored.poly == num(k):
            accepted.add(k)
        else:
            unknown[k] = r if isinstance(r, Unk) else stored
    if unknown:
        k0 = sorted(unknown, key=float)[0]
        flag2_syntactic(SuspectCtx(ctx, 'the setter was not decided by interpretation (flag %s: %r) and the syntactic rule, which knows one spelling only, reports' % (k0, unknown[k0])), repo, vs)
    else:
        ints = {k for k in accepted if Fraction(k).denominator == 1}
        ctx.exhaustive = True
        ctx.expect(not (accepted - ints), 'FLAG-2', 'non-integer flags refused', where(vs), 'flags 0.5 and 3.5 are refused', 'fractional flags %s are accepted' % sorted(map(str, accepted - ints)), 'integrality')
        ctx.expect(ints == {0, 1, 2, 3, 4, 9}, 'FLAG-2', 'accepted flag set', where(vs), 'accepts exactly {0,1,2,3,4,9} on [-5,20]', 'accepts %s' % sorted(ints), 'flag-set')
    # ---- AGREE-1
    state_roundtrip(ctx, ci)
    from ..staterules import conversion_roundtrip
    from ..roundtrip import SuspectCtx
    td = ctx.fn(repo.func('source.source', 'Source.to_dict'))
    fd = ctx.fn(repo.func('source.source', 'Source.from_dict'))
    if conversion_roundtrip(ctx, ci, 'to_dict', 'from_dict', 'AGREE-1', 'dict key'):
        # from_dict goes through the setters: a dictionary whose arrays have different lengths is refused (interpreted with the real setters)
        from ..interp import ClassRef
        bad = []
        for a, b in ((5, 7), (7, 5), (5, 5)):
            I = Interp(repo, LenHooks({count_atom('V'): a, count_atom('w'): b}))
            d = {'name': 'S', 'x': 0., 'y': 0., 'valid': symarr('valid', ('w',), unit=num(1)), 'flux': symarr('val', ('V',), unit=num(1)), 'error': symarr('err', ('w',), unit=num(1))}
            out = I.call(fd, [ClassRef(ci), d])
            raised = isinstance(out, Unk) and 'always raises' in out.why
            if isinstance(out, Unk) and not raised:
                bad = None
                break
            if raised != (a != b):
                bad.append('%d flags with %d fluxes is %s' % (b, a, 'refused' if raised else 'accepted'))
        if bad is None:
            ctx.undecided('CFG-12', 'from_dict refuses arrays of different lengths', where(fd), 'not modelled: %r' % (out,))
        else:
            ctx.expect(not bad, 'CFG-12', 'from_dict refuses arrays of different lengths', where(fd), 'goes through the length-checking setters', '; '.join(bad), 'dict-lengths')
    else:
        ctx0, ctx = ctx, SuspectCtx(ctx, 'the conversion was not decided by interpretation and the syntactic rule, which knows one spelling only, reports')
        wk = getstate_keys(td) or {}
        rk = {}
        for t, v, st in stores(fd.node):
            if isinstance(t, ast.Attribute) and isinstance(v, ast.Subscript) and isinstance(const(v.slice), str):
                rk[t.attr] = const(v.slice)
        for k in ('name', 'x', 'y', 'valid', 'flux', 'error'):
            ctx.expect(wk.get(k) == 'self.%s' % k and rk.get(k) == k, 'AGREE-1', 'dict key %r' % k, where(td), 'to_dict[%r] = self.%s ; from_dict reads it back into %s' % (k, k, k),
                       'to_dict %s / from_dict %s' % (wk.get(k), rk.get(k)), 'dict-key')
        fo = [a for a in rk]
        ctx.expect(fo.index('valid') < fo.index('flux') and fo.index('valid') < fo.index('error') if all(k in fo for k in ('valid', 'flux', 'error')) else False,
                   'CFG-12', 'from_dict assigns valid first', where(fd), 'order %s' % fo, 'order %s' % fo, 'dict-order')
        ctx = ctx0


SO = 'sedfitter/source/source.py'
MUST_FIRE = [
    ('fluxes and errors interleaved in a buffer with the element type of the fluxes (whole-number fluxes truncate the errors)', [(SO, '        for j in range(self.n_wav):\n            line += "{0:11.3e} {1:11.3e} ".format(self.flux[j], self.error[j])\n', '        values = np.empty(2 * self.n_wav, dtype=self.flux.dtype)\n        values[0::2] = self.flux\n        values[1::2] = self.error\n        line += "".join("{0:11.3e} ".format(v) for v in values)\n')]),
    ('length check through a helper that forgets length 0', [(SO, 'if self.n_wav is not None and len(value) != self.n_wav:\n                raise ValueError("flux', 'if self._mismatch(value):\n                raise ValueError("flux'),
                                                             (SO, '    @property\n    def n_data(self):', '    def _mismatch(self, value):\n        return bool(self.n_wav) and len(value) != self.n_wav\n\n    @property\n    def n_data(self):')]),
    ('strides swapped', [(SO, "        s.flux = flux_and_error[::2]\n        s.error = flux_and_error[1::2]", "        s.flux = flux_and_error[1::2]\n        s.error = flux_and_error[::2]")]),
    ('(len-3)//2', [(SO, "n_wav = np.int32((len(cols) - 3) / 3)", "n_wav = np.int32((len(cols) - 3) / 2)")]),
    ('flag slice off by one', [(SO, "s.valid = np.array(cols[3:3 + n_wav], dtype=int)", "s.valid = np.array(cols[2:2 + n_wav], dtype=int)")]),
    ('EOF check removed', [(SO, "        if len(cols) < 3:\n            raise EOFError()\n", "")]),
    ('flux setter length check removed', [(SO, "            if self.n_wav is not None and len(value) != self.n_wav:\n                raise ValueError(\"flux has incorrect length", "            if False:\n                raise ValueError(\"flux has incorrect length")]),
    ('flag predicate > 9', [(SO, "(value < 0) | ((value > 4) & (value != 9))", "(value < 0) | (value > 9)")]),
    ('to_ascii emits error before flux', [(SO, '.format(self.flux[j], self.error[j])', '.format(self.error[j], self.flux[j])')]),
    ('y from column 1', [(SO, "s.y = np.float64(cols[2])", "s.y = np.float64(cols[1])")]),
    ('fluxes read from the flags onwards', [(SO, "flux_and_error = np.array(cols[3 + n_wav:], dtype=float)", "flux_and_error = np.array(cols[3:], dtype=float)")]),
    ('from_dict flux/error crossed', [(SO, "s.flux = source_dict['flux']\n        s.error = source_dict['error']", "s.flux = source_dict['error']\n        s.error = source_dict['flux']")]),
    ('getstate loses y', [(SO, "            'y': self.y,\n            'valid': self.valid,\n            'flux': self.flux,\n            'error': self.error\n        }\n\n    def __setstate__", "            'valid': self.valid,\n            'flux': self.flux,\n            'error': self.error\n        }\n\n    def __setstate__")]),
    ('flag 9 rejected', [(SO, "(value < 0) | ((value > 4) & (value != 9))", "(value < 0) | (value > 4)")]),
    ('fewer than two columns', [(SO, "        if len(cols) < 3:\n            raise EOFError()", "        if len(cols) < 2:\n            raise EOFError()")]),
    ('n_wav prefers flux', [(SO, "        if self.valid is not None:\n            return len(self.valid)\n        elif self.flux is not None:\n            return len(self.flux)", "        if self.flux is not None:\n            return len(self.flux)\n        elif self.valid is not None:\n            return len(self.valid)")]),
]
MUST_SILENT = [
    ('fluxes and errors interleaved in a buffer of doubles', [(SO, '        for j in range(self.n_wav):\n            line += "{0:11.3e} {1:11.3e} ".format(self.flux[j], self.error[j])\n', '        values = np.empty(2 * self.n_wav, dtype=float)\n        values[0::2] = self.flux\n        values[1::2] = self.error\n        line += "".join("{0:11.3e} ".format(v) for v in values)\n')]),
    ('flux assigned before valid (the length test then falls on the flags: the same lines are refused)', [(SO, "        s.valid = np.array(cols[3:3 + n_wav], dtype=int)\n        flux_and_error = np.array(cols[3 + n_wav:], dtype=float)\n        s.flux = flux_and_error[::2]\n",
                                         "        flux_and_error = np.array(cols[3 + n_wav:], dtype=float)\n        s.flux = flux_and_error[::2]\n        s.valid = np.array(cols[3:3 + n_wav], dtype=int)\n")]),
    ('length check through a helper', [(SO, 'if self.n_wav is not None and len(value) != self.n_wav:\n                raise ValueError("flux', 'if self._mismatch(value):\n                raise ValueError("flux'),
                                       (SO, '    @property\n    def n_data(self):', '    def _mismatch(self, value):\n        return self.n_wav is not None and len(value) != self.n_wav\n\n    @property\n    def n_data(self):')]),
    ('length check spelled the other way round', [(SO, 'if self.n_wav is not None and len(value) != self.n_wav:\n                raise ValueError("error', 'if not (self.n_wav is None or self.n_wav == len(value)):\n                raise ValueError("error')]),
    ('floor division', [(SO, "n_wav = np.int32((len(cols) - 3) / 3)", "n_wav = (len(cols) - 3) // 3")]),
    ('slices via temporaries', [(SO, "s.valid = np.array(cols[3:3 + n_wav], dtype=int)", "first = 3\n        s.valid = np.array(cols[first:first + n_wav], dtype=int)")]),
    ('explicit step', [(SO, "s.flux = flux_and_error[::2]", "s.flux = flux_and_error[0::2]")]),
]


def thorough(ctx):
    from .. import selftest
    selftest.run(ctx, MUST_FIRE, MUST_SILENT)
