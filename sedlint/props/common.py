"""Rule instances shared by several properties."""
import ast

from ..astutil import up, chain, calls, is_call_to, walk_local, paths, root_name, stores, const
from ..rules import where, path_actions
from ..loader import AnalysisError

POSTPROC = [('write_parameters', 'write_parameters'), ('write_parameter_ranges', 'write_parameter_ranges'),
            ('extract_parameters', 'extract_parameters'), ('plot', 'plot'), ('plot_params_1d', 'plot_params_1d'),
            ('plot_params_2d', 'plot_params_2d'), ('filter_output', 'filter_output')]


def fitinfo_mutators(ctx):
    """Methods of FitInfo that store into self (computed from the class), and whether any store is in place."""
    ci = ctx.repo.cls('fit_info', 'FitInfo')
    muts, inplace = {}, []
    for name, fi in ci.methods.items():
        if name in ('__init__', '__setstate__'):
            continue
        me = fi.params[0] if fi.params else 'self'
        for t, v, st in stores(fi.node):
            if root_name(t) == me:
                muts.setdefault(name, []).append(up(t))
                if not (isinstance(t, ast.Attribute) and isinstance(t.value, ast.Name)):
                    inplace.append((fi, st))
                if isinstance(st, ast.AugAssign):
                    inplace.append((fi, st))
        for c in calls(fi.node):
            cn = chain(c.func) or ''
            if cn.startswith(me + '.') and cn.split('.')[-1] in ('sort', 'fill', 'resize', 'put', 'itemset', 'partition') and cn.count('.') >= 2:
                inplace.append((fi, c))
                muts.setdefault(name, []).append(up(c))
    # in-place stores that reach the arrays held by the record through local aliases (E6, field-sensitive)
    from ..effects import Effects
    E = Effects(ctx.repo)
    for name, fi in ci.methods.items():
        if name in ('__init__', '__setstate__'):
            continue
        me = fi.params[0] if fi.params else 'self'
        summ = E.summary(fi)
        for f, sites in summ.deep.get(me, {}).items():
            for node, txt in sites:
                if not any(st is node for _, st in inplace):
                    inplace.append((fi, node))
                    muts.setdefault(name, []).append(txt)
    return muts, inplace


def iter_ownership(ctx):
    """Classify what FitInfoFile.__iter__ yields in in-memory mode.
    Returns ('fresh'|'caller-owned'|'undecided', detail, node)."""
    it = ctx.fn(ctx.repo.func('fit_info', 'FitInfoFile.__iter__'))
    verdicts = []
    for p in paths(it.node.body):
        acts = path_actions(p)
        if any(a[0] == 'call' and (chain(a[1].func) or '').endswith('.load') for a in acts) or any(a[0] == 'except' for a in acts):
            continue
        for i, a in enumerate(acts):
            if a[0] != 'yield':
                continue
            y = a[1]
            if not (isinstance(y, ast.Yield) and isinstance(y.value, ast.Name)):
                if isinstance(y, ast.Yield) and isinstance(y.value, ast.Call) and is_call_to(y.value, 'copy', 'deepcopy'):
                    verdicts.append(('fresh-nometa', 'yields %s' % up(y.value), y))
                else:
                    verdicts.append(('undecided', 'yields %s' % up(y), y))
                continue
            nm = y.value.id
            src = None
            for j in range(i - 1, -1, -1):
                b = acts[j]
                if b[0] == 'store' and isinstance(b[1], ast.Name) and b[1].id == nm:
                    src = (j, b)
                    break
            if src is None:
                verdicts.append(('undecided', '%s unbound' % nm, y))
            elif isinstance(src[1][3], ast.For) and isinstance(src[1][2], ast.Attribute) and isinstance(src[1][2].value, ast.Name) and src[1][2].value.id == it.params[0]:
                verdicts.append(('caller-owned', 'yields the element of %s itself' % up(src[1][2]), y))
            elif isinstance(src[1][2], ast.Call) and is_call_to(src[1][2], 'copy', 'deepcopy'):
                orig = up(src[1][2].args[0]) if src[1][2].args else '?'
                deep = is_call_to(src[1][2], 'deepcopy')
                meta = [b for b in acts[src[0] + 1:i] if b[0] == 'store' and up(b[1]) == nm + '.meta' and up(b[2]) == orig + '.meta']
                if meta:
                    verdicts.append(('fresh' if not deep else 'fresh-deep', 'yields %s with .meta re-attached' % up(src[1][2]), y))
                else:
                    verdicts.append(('fresh-nometa', 'yields %s without re-attaching .meta (FitInfo.__getstate__ does not carry it)' % up(src[1][2]), y))
            else:
                verdicts.append(('undecided', '%s bound by %s' % (nm, up(src[1][2])[:80]), y))
    if not verdicts:
        raise AnalysisError('FitInfoFile.__iter__: in-memory yield not found')
    return it, verdicts


def consumer_sites(ctx, module, func):
    """Mutations applied to the loop variable of ``for X in FitInfoFile(...)`` in a post-processing function,
    including through repo callees that store into that argument (one level)."""
    repo = ctx.repo
    fi = ctx.fn(repo.func(module, func))
    muts, _ = fitinfo_mutators(ctx)
    readers = [t.id for t, v, st in stores(fi.node) if isinstance(t, ast.Name) and isinstance(v, ast.Call) and is_call_to(v, 'FitInfoFile')
               and len(v.args) > 1 and const(v.args[1]) == 'r']
    # ... or bound by a with-statement:  with FitInfoFile(..., 'r') as fin
    for w_ in walk_local(fi.node):
        if isinstance(w_, ast.With):
            for it_ in w_.items:
                v = it_.context_expr
                if isinstance(it_.optional_vars, ast.Name) and isinstance(v, ast.Call) and is_call_to(v, 'FitInfoFile') and len(v.args) > 1 and const(v.args[1]) == 'r':
                    readers.append(it_.optional_vars.id)
    sites = []
    loops = [n for n in walk_local(fi.node) if isinstance(n, ast.For) and isinstance(n.iter, ast.Name) and n.iter.id in readers and isinstance(n.target, ast.Name)]
    # ... or iterated where it is made:  for info in FitInfoFile(..., 'r')
    loops += [n for n in walk_local(fi.node) if isinstance(n, ast.For) and isinstance(n.iter, ast.Call) and is_call_to(n.iter, 'FitInfoFile') and len(n.iter.args) > 1
              and const(n.iter.args[1]) == 'r' and isinstance(n.target, ast.Name)]
    if not loops:
        raise AnalysisError('%s: loop over FitInfoFile(..., \'r\') not found' % fi.qual)
    for lp in loops:
        x = lp.target.id
        for n in walk_local(lp):
            if isinstance(n, ast.Call):
                cn = chain(n.func) or ''
                if cn.startswith(x + '.') and cn.count('.') == 1 and cn.split('.')[1] in muts:
                    sites.append((n, up(n)))
                else:
                    # pass-through to a repo function that stores into the parameter
                    for k, a in enumerate(n.args):
                        if isinstance(a, ast.Name) and a.id == x:
                            r = repo.resolve_name(fi.module, cn) if '.' not in cn else None
                            if r and r[0] == 'func':
                                callee = r[1]
                                if k < len(callee.params):
                                    pn = callee.params[k]
                                    for t, v, st in stores(callee.node):
                                        if root_name(t) == pn and not isinstance(t, ast.Name):
                                            sites.append((n, '%s -> %s' % (up(n)[:60], up(st)[:60])))
                                    for c in calls(callee.node):
                                        ccn = chain(c.func) or ''
                                        if ccn.startswith(pn + '.') and ccn.count('.') == 1 and ccn.split('.')[1] in muts:
                                            sites.append((n, '%s -> %s' % (up(n)[:60], up(c)[:60])))
        for t, v, st in stores(lp):
            if root_name(t) == x and not isinstance(t, ast.Name):
                sites.append((st, up(st)))
    return fi, loops, sites


def consumer_inplace_sites(ctx, module, func):
    """In-place writes into an array held by the record being iterated (directly, or through a local name bound to one of its attributes or to a view of it):
    the copy FitInfoFile hands out is shallow and keep() leaves views, so such a write lands in the caller's own array."""
    from ..effects import INPLACE_METHODS
    repo = ctx.repo
    fi = ctx.fn(repo.func(module, func))
    readers = [t.id for t, v, st in stores(fi.node) if isinstance(t, ast.Name) and isinstance(v, ast.Call) and is_call_to(v, 'FitInfoFile')]
    out = []
    from ..rules import state_keys
    array_attrs = set(state_keys(repo, repo.cls('fit_info', 'FitInfo')) or ()) - {'source'}          # the per-fit arrays of a record
    for lp in [n for n in walk_local(fi.node) if isinstance(n, ast.For) and isinstance(n.iter, ast.Name) and n.iter.id in readers and isinstance(n.target, ast.Name)]:
        x = lp.target.id

        def is_view_of_record(e, aliases):
            # x.attr, x.attr[...] (basic index), alias, alias[...]
            while isinstance(e, ast.Subscript):
                if isinstance(e.slice, (ast.List, ast.ListComp, ast.Compare)):
                    return False          # fancy / boolean index: a copy
                e = e.value
            if isinstance(e, ast.Name):
                return e.id in aliases
            return isinstance(e, ast.Attribute) and isinstance(e.value, ast.Name) and e.value.id == x
        def expr_sites(e, aliases):
            for n in ast.walk(e):
                if isinstance(n, ast.Call) and isinstance(n.func, ast.Attribute) and n.func.attr in INPLACE_METHODS and is_view_of_record(n.func.value, aliases) \
                        and not (isinstance(n.func.value, ast.Name) and n.func.value.id == x):
                    out.append((n, up(n)))
                elif isinstance(n, ast.Call):
                    for k in n.keywords:
                        if k.arg == 'out' and is_view_of_record(k.value, aliases):
                            out.append((n, up(n)))

        def flow(body, aliases):
            """forward may-alias pass in source order: a local is an alias from the statement that binds it to a view of the record until it is rebound to something else"""
            for st in body:
                if isinstance(st, ast.Assign):
                    expr_sites(st.value, aliases)
                    for t in st.targets:
                        if isinstance(t, ast.Subscript) and is_view_of_record(t.value, aliases):
                            out.append((st, up(st)))
                        elif isinstance(t, ast.Name):
                            (aliases.add if is_view_of_record(st.value, aliases) else aliases.discard)(t.id)
                elif isinstance(st, ast.AugAssign):
                    expr_sites(st.value, aliases)
                    if is_view_of_record(st.target, aliases) and not isinstance(st.target, ast.Attribute):
                        out.append((st, up(st)))
                    elif isinstance(st.target, ast.Attribute) and isinstance(st.target.value, ast.Name) and st.target.value.id == x and st.target.attr in array_attrs:
                        out.append((st, up(st)))          # record.array += v: numpy adds in place, into the array the caller's result shares
                elif isinstance(st, ast.If):
                    expr_sites(st.test, aliases)
                    a1, a2 = set(aliases), set(aliases)
                    flow(st.body, a1); flow(st.orelse, a2)
                    aliases.clear(); aliases.update(a1 | a2)
                elif isinstance(st, (ast.For, ast.While)):
                    for _ in range(2):
                        flow(st.body, aliases)
                    flow(st.orelse, aliases)
                elif isinstance(st, ast.With):
                    flow(st.body, aliases)
                elif isinstance(st, ast.Try):
                    flow(st.body, aliases)
                    for h_ in st.handlers:
                        flow(h_.body, aliases)
                    flow(st.orelse, aliases); flow(st.finalbody, aliases)
                elif isinstance(st, (ast.Expr, ast.Return)) and st.value is not None:
                    expr_sites(st.value, aliases)
        n0 = len(out)
        flow(lp.body, set())
        seen_ = set()
        out[n0:] = [o for o in out[n0:] if not (id(o[0]) in seen_ or seen_.add(id(o[0])))]
    return fi, out


def check_ownership(ctx, only=None, rule='EFF-2'):
    # what iteration over in-memory results hands out is decided by interpreting FitInfoFile (recfile.py); the syntactic classification of the
    # yield statements is the fall-back when the interpretation has no verdict
    from .. import recfile
    sem = recfile.iteration_verdict(ctx.repo)
    if sem is not None:
        it = ctx.fn(ctx.repo.func('fit_info', 'FitInfoFile.__iter__'))
        verdicts = [(sem[0], sem[1], it.node)]
    else:
        it, verdicts = iter_ownership(ctx)
    muts, inplace = fitinfo_mutators(ctx)
    owned = [v for v in verdicts if v[0] == 'caller-owned']
    undec = [v for v in verdicts if v[0] == 'undecided']
    nometa = [v for v in verdicts if v[0] == 'fresh-nometa']
    for v in undec:
        ctx.undecided(rule, '__iter__ in-memory yield', where(it, v[2]), v[1])
    for v in nometa:
        ctx.violation(rule, '__iter__ in-memory yield metadata', where(it, v[2]), v[1] + ': consumers read info.meta, so in-memory results are not interchangeable with a file', 'copy-loses-meta')
    if not owned and not undec and not nometa:
        ctx.ok(rule, '__iter__ in-memory yield', where(it, verdicts[0][2]), verdicts[0][1])
    # shallow copy suffices only if mutators rebind
    shallow = any(v[0] == 'fresh' for v in verdicts)
    if inplace and shallow:
        for fi, st in inplace:
            ctx.violation(rule, 'FitInfo mutator stores in place', where(fi, st), 'in-place store %s reaches arrays shared with the caller through the shallow copy' % up(st)[:80], 'inplace-mutator')
    else:
        ci = ctx.repo.cls('fit_info', 'FitInfo')
        ctx.ok(rule, 'FitInfo mutators rebind only', where(ci.methods['keep']), 'mutators %s only rebind attributes' % sorted(muts))
    for module, func in POSTPROC:
        if only and func not in only:
            continue
        fi_, ips = consumer_inplace_sites(ctx, module, func)
        for node, text in ips:
            ctx.violation(rule, '%s: in-place write into an array of the record' % func, where(fi_, node), '%s rewrites an array the record shares with the result the caller passed in '
                          '(iteration hands out a shallow copy and keep() leaves views): the caller\'s results are changed' % text[:80], 'inplace-on-record')
        if not ips:
            ctx.ok(rule, '%s writes into no array of the record' % func, where(fi_), 'no in-place store, augmented assignment, in-place method or out= reaches an attribute array of the iterated record')
        fi, loops, sites = consumer_sites(ctx, module, func)
        ctx.analysed['call_sites'] += len(sites)
        if not sites:
            ctx.ok(rule, '%s applies no mutator' % func, where(fi, loops[0]), 'loop over the results applies no FitInfo mutator')
            continue
        for node, text in sites:
            inst = '%s: %s' % (func, text[:70])
            if owned:
                ctx.violation(rule, inst, where(fi, node), 'mutator applied to the caller\'s own result object (%s)' % owned[0][1], 'mutates-caller-object')
            elif undec or nometa:
                pass
            else:
                ctx.ok(rule, inst, where(fi, node), 'applied to a copy yielded by FitInfoFile.__iter__ (or a freshly unpickled record)')


# ---------------------------------------------------------------- API rules (E7)

def api_rule(ctx, module_names, min_chains=0, rule='API-1'):
    """Every external attribute chain / imported name used in the given repo modules resolves in the
    installed environment (optional imports under try/except ImportError are skipped)."""
    from .. import extapi
    total = 0
    for mn in module_names:
        m = ctx.repo.module(mn)
        chains = extapi.module_chains(m)
        bad = 0
        seen = set()
        for dotted, node, fn, optional in chains:
            if optional:
                continue
            total += 1
            okk, why = extapi.resolve_dotted(dotted)
            if not okk:
                key = (dotted, fn)
                if key in seen:
                    continue
                seen.add(key)
                bad += 1
                ctx.violation(rule, '%s uses %s' % (fn or m.name, dotted), '%s:%d %s' % (m.path, node.lineno, fn or '<module>'),
                              'external name does not exist in the installed environment: %s' % why, dotted)
        if not bad:
            ctx.ok(rule, 'module %s' % m.name, '%s:1 <module>' % m.path, '%d external chains resolve' % len([c for c in chains if not c[3]]))
    ctx.analysed['external_chains'] += total
    if total < min_chains:
        ctx.error('%s analysed %d external chains, below the frozen minimum %d' % (rule, total, min_chains))
    return total


def api_literal_rule(ctx, module_names, rule='API-2', min_sites=0):
    from .. import extapi
    doms = extapi.literal_domains()
    n = 0
    for mn in module_names:
        m = ctx.repo.module(mn)
        for dotted, kwn, val, call, fn in extapi.keyword_literal_sites(m):
            if (dotted, kwn) in doms:
                n += 1
                dom, src = doms[(dotted, kwn)]
                inst = '%s(%s=) in %s' % (dotted, kwn, fn)
                loc = '%s:%d %s' % (m.path, call.lineno, fn)
                if val in dom:
                    ctx.ok(rule, inst, loc, 'literal %r is in the accepted domain %s (%s)' % (val, sorted(dom), src))
                else:
                    ctx.violation(rule, inst, loc, 'literal %r is rejected by the library: accepted %s (%s)' % (val, sorted(dom), src), '%s=%r' % (kwn, val))
    if n < min_sites:
        ctx.error('%s matched %d literal-domain sites, below the minimum %d' % (rule, n, min_sites))
    return n


# ---------------------------------------------------------------- state shared by every instance of a class

def check_shared_class_state(ctx, classes, rule='EFF-7'):
    """A container created in the class body (``cache = {}``) is one object shared by every instance.  When a method fills it, through ``self``, with values
    computed from the instance's own data, what one object computed is handed to the next: results then depend on which objects were used before.  Reported
    for each such store; a container that is rebound per instance in __init__, or filled with values that do not read ``self``, is not."""
    from ..effects import INPLACE_METHODS
    for mod, cname in classes:
        ci = ctx.repo.cls(mod, cname)
        shared = {}
        for st in ci.node.body:
            if isinstance(st, ast.Assign) and len(st.targets) == 1 and isinstance(st.targets[0], ast.Name):
                v = st.value
                if isinstance(v, (ast.Dict, ast.List, ast.Set)) or (isinstance(v, ast.Call) and (chain(v.func) or '') in ('dict', 'list', 'set', 'collections.defaultdict', 'defaultdict', 'OrderedDict', 'collections.OrderedDict')):
                    shared[st.targets[0].id] = st
        n_sites = 0
        for name, decl in sorted(shared.items()):
            rebound = False
            leaks = []
            for mname, m in ci.methods.items():
                me = m.params[0] if m.params else None
                if me is None:
                    continue
                def reads_self(e):
                    return any(isinstance(n, ast.Name) and n.id == me for n in ast.walk(e))
                for t, v, st in stores(m.node):
                    if isinstance(t, ast.Attribute) and isinstance(t.value, ast.Name) and t.value.id == me and t.attr == name and mname in ('__init__', '__setstate__'):
                        rebound = True
                    if isinstance(t, ast.Subscript) and isinstance(t.value, ast.Attribute) and isinstance(t.value.value, ast.Name) and t.value.value.id == me and t.value.attr == name \
                            and v is not None and reads_self(v):
                        leaks.append((m, st))
                for c in calls(m.node):
                    f = c.func
                    if isinstance(f, ast.Attribute) and f.attr in INPLACE_METHODS | {'setdefault', 'add'} and isinstance(f.value, ast.Attribute) and isinstance(f.value.value, ast.Name) \
                            and f.value.value.id == me and f.value.attr == name and any(reads_self(a) for a in list(c.args) + [k.value for k in c.keywords]):
                        leaks.append((m, c))
            if rebound:
                continue
            for m, node in leaks:
                n_sites += 1
                ctx.violation(rule, '%s.%s is shared by every %s' % (cname, name, cname), where(m, node),
                              '%s stores a value computed from this object into the container %s created in the class body (line %d): every other %s sees it, so a result depends on the objects used before'
                              % (up(node)[:70], name, decl.lineno, cname), 'shared-class-state:%s.%s' % (cname, name))
        # a default argument is evaluated once, when the function is defined: a mutable object built there (a call, a list / dict / set display) and kept on the
        # instance is one object shared by every instance constructed without that argument
        for mname, m in ci.methods.items():
            me = m.params[0] if m.params else None
            a_ = m.node.args
            pos_ = list(a_.posonlyargs) + list(a_.args)
            pairs_ = list(zip(pos_[len(pos_) - len(a_.defaults):], a_.defaults)) + [(k_, d_) for k_, d_ in zip(a_.kwonlyargs, a_.kw_defaults) if d_ is not None]
            for arg_, dflt_ in pairs_:
                if not isinstance(dflt_, (ast.Call, ast.List, ast.Dict, ast.Set, ast.ListComp, ast.DictComp, ast.SetComp)):
                    continue
                if isinstance(dflt_, ast.Call) and (chain(dflt_.func) or '').split('.')[-1] in ('tuple', 'frozenset', 'float', 'int', 'str', 'bool', 'Unit', 'Quantity') :
                    continue
                kept = [st for t, v, st in stores(m.node) if isinstance(t, ast.Attribute) and isinstance(t.value, ast.Name) and t.value.id == me and isinstance(v, ast.Name) and v.id == arg_.arg]
                for st in kept:
                    n_sites += 1
                    ctx.violation(rule, '%s.%s keeps its default argument %s' % (cname, mname, arg_.arg), where(m, st),
                                  'the default of %s is %s, built once when the function is defined; %s keeps it on the instance: every %s made without that argument shares one object, and what one of '
                                  'them stores in it the others see' % (arg_.arg, up(dflt_)[:40], up(st)[:60], cname), 'mutable-default:%s.%s.%s' % (cname, mname, arg_.arg))
        if not n_sites:
            ctx.ok(rule, '%s keeps no instance data in class-level containers' % cname, where(next(iter(ci.methods.values()))) if ci.methods else ci.module.path,
                   'class-level containers: %s; none is filled through self with values computed from the instance' % (sorted(shared) or 'none'))
