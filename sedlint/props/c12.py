"""C12 SED, cube and convolved-flux files read back exactly what was stored."""
import ast

from ..astutil import up, chain, calls, walk_local, stores, const, kw, root_name, paths, enclosing_map
from ..rules import where, path_actions
from ..loader import AnalysisError
from .. import fitsmodel, boolfn
from ..boolfn import LT
from ..axes import declared_axes, reversal_position
from . import common
from .. import alg as _alg
from ..alg import sym as _sym
from ..interp import Interp as _Interp, Hooks as _Hooks, Obj as _Obj, symarr as _symarr, unit_atom as _unit_atom, scalar as _scalar, Unk as _Unk
from ..fitmodel import compare as _compare, loc as _loc

EXPLANATION = (
    "(AGREE-3/4/5) For SED, BaseCube and ConvolvedFluxes, every attribute the reader sets is read from exactly the HDU (by position or name), column, "
    "image or keyword into which the writer stored that same attribute, no other column of that HDU, with its unit taken from the same column (or keyword) and "
    "written from the same attribute; scalar keywords (DISTANCE, FILTWAV) are written and read back in the same unit; every HDU the reader names exists. "
    "(API-2) the unit strings the writers emit are parsed through a call the installed astropy accepts. (PERM-4/5, AXIS) the read-time reversal is guarded by "
    "(order == 'nu' and nu decreasing) or (order == 'wav' and wav decreasing) and reverses every attribute that has a spectral axis - wav, nu, flux/error or "
    "val/unc - on the axis the setters declare as n_wav. (PERM-6) if SED.write reorders the spectral table, the same order is applied to every column with a "
    "spectral axis. (CFG-8) optional parts (unc) are subscripted only under a None-guard in read / get_sed. (AXIS) SEDCube.get_sed indexes val and unc on the "
    "model axis with the index found from names and carries name, distance, wav, nu, apertures over.")
NOT_DECIDED = ["float32/float64 storage exactness and memory-mapped vs in-memory reads returning equal values (FITS library)",
               "astropy's unit string formatting and parsing being inverse of each other (library)"]
ASSUMPTIONS = ["the FITS library stores table columns in insertion order and HDUs in list order"]
TRUSTED = ["python ast", "astropy.io.fits / astropy.table semantics"]
MIN = {'AGREE-4': 18, 'AGREE-5': 14, 'AGREE-3': 10, 'API-2': 1, 'PERM-4': 24, 'PERM-5': 20, 'AXIS': 9}


def reversal_block(fi, obj):
    """the If whose body reverses attributes of ``obj`` with [::-1]"""
    for n in walk_local(fi.node):
        if isinstance(n, ast.If):
            revs = [st for st in walk_local(n) if isinstance(st, ast.Assign) and '::-1' in up(st.value)]
            if revs and '[0]' in up(n.test) and '[-1]' in up(n.test):
                return n
    return None


def alternative_coordinates(repo, ci):
    """pairs (a, b) of attributes whose setters clear each other (self._b = None in the setter of a): two
    representations of one coordinate, of which only one is stored"""
    out = set()
    for c in repo.mro(ci):
        for name, st in c.setters.items():
            for t, v, s_ in stores(st.node):
                if isinstance(t, ast.Attribute) and isinstance(v, ast.Constant) and v.value is None and t.attr.lstrip('_') != name and t.attr.startswith('_'):
                    # only inside the "value is not None" arm
                    out.add((name, t.attr.lstrip('_')))
    return {(a, b) for (a, b) in out if (b, a) in out}


def check_reversal(ctx, rule, fi, obj, axes, spectral_attrs):
    blk = reversal_block(fi, obj)
    if blk is None:
        ctx.violation(rule, 'reversal block', where(fi), 'the reader never reverses the spectral axis: a file stored in the other order is returned unsorted', 'no-reversal')
        return
    # guard
    try:
        env = {}
        code = boolfn.to_fn(blk.test)
        A, B = ('EQ',) + tuple(sorted(('order', "'nu'"))), LT('%s.nu[-1]' % obj, '%s.nu[0]' % obj)
        C, D = ('EQ',) + tuple(sorted(('order', "'wav'"))), LT('%s.wav[-1]' % obj, '%s.wav[0]' % obj)
        (B, nb), (D, nd) = B, D
        ref = ({A, B, C, D}, lambda a: (a[A] and (a[B] != nb)) or (a[C] and (a[D] != nd)))
        extra = code[0] - ref[0]
        if extra:
            ctx.undecided(rule, 'reversal guard', where(fi, blk), 'unrecognised atoms %s' % sorted(extra))
        else:
            eq, wit, n = boolfn.equivalent(code, ref)
            ctx.expect(eq, rule, 'reversal guard', where(fi, blk), "reverse iff (order=='nu' and nu decreasing) or (order=='wav' and wav decreasing), all %d assignments" % n,
                       'guard differs for %s' % ({str(k): v for k, v in (wit or {}).items()}), 'guard')
    except boolfn.Unknown as e:
        ctx.undecided(rule, 'reversal guard', where(fi, blk), str(e))
    par = enclosing_map(blk)
    seen = {}
    for st in walk_local(blk):
        if isinstance(st, ast.Assign) and len(st.targets) == 1 and isinstance(st.targets[0], ast.Attribute) and root_name(st.targets[0]) == obj:
            attr = st.targets[0].attr
            v = st.value
            if not (isinstance(v, ast.Subscript) and isinstance(v.value, ast.Attribute) and v.value.attr == attr and root_name(v.value) == obj):
                continue
            pos = reversal_position(v)
            seen[attr] = (pos, st, v)
    alts = alternative_coordinates(ctx.repo, fi.cls) if fi.cls is not None else set()
    for a_, b_ in sorted(alts):
        if a_ < b_ and a_ in seen and b_ in seen:
            ctx.violation(rule if rule == 'PERM-4' else 'AXIS', 'reversal of %s and %s' % (a_, b_), where(fi, seen[b_][1]),
                          '%s and %s are two representations of one stored coordinate (each setter clears the other): reversing both flips the spectral axis twice while the values are flipped once' % (a_, b_), 'double-reversal')
    for attr in spectral_attrs:
        inst = 'reversal of %s' % attr
        ax = axes.get(attr)
        if ax is None:
            raise AnalysisError('no declared axes for %s' % attr)
        if attr not in seen:
            # nu is derived from wav in the cube (setter clears the other): allowed when the class derives it
            ctx.violation(rule, inst, where(fi, blk), '%s has a spectral axis %s but is not reversed with the others' % (attr, ax), 'not-reversed')
            continue
        pos, st, v = seen[attr]
        if pos is None:
            ctx.violation(rule, inst, where(fi, st), 'no [::-1] in %s' % up(st), 'not-reversed')
            continue
        kind, p = pos
        n_idx = len(v.slice.elts) if isinstance(v.slice, ast.Tuple) else 1
        axis_index = p if kind == 'front' else len(ax) - 1 - p
        if kind == 'front' and n_idx == 1 and len(ax) == 1:
            axis_index = 0
        good = 0 <= axis_index < len(ax) and ax[axis_index] == 'n_wav'
        ctx.expect(good, 'AXIS' if rule != 'PERM-4' else rule, inst, where(fi, st), '%s reversed on axis %d of %s (the spectral axis)' % (attr, axis_index, ax),
                   '%s is reversed on axis %d = %s of %s, not on the spectral axis' % (attr, axis_index, ax[axis_index] if 0 <= axis_index < len(ax) else '?', ax), 'wrong-axis')


def check_none_guards(ctx, fi, obj, attr):
    """CFG-8: every subscript of obj.attr is dominated by a guard `obj.attr is not None`."""
    par = enclosing_map(fi.node)
    n = 0
    for node in walk_local(fi.node):
        if isinstance(node, ast.Subscript) and isinstance(node.value, ast.Attribute) and node.value.attr == attr and root_name(node.value) == obj and isinstance(node.ctx, ast.Load):
            n += 1
            guarded = False
            cur = node
            while cur in par:
                p = par[cur]
                if isinstance(p, ast.If) and cur in p.body and up(p.test).replace(' ', '') in ('%s.%sisnotNone' % (obj, attr),):
                    guarded = True
                if isinstance(p, ast.IfExp) and cur is p.body and up(p.test).replace(' ', '') == '%s.%sisnotNone' % (obj, attr):
                    guarded = True
                cur = p
            ctx.expect(guarded, 'CFG-8', '%s: %s' % (fi.name, up(node)), where(fi, node), 'subscripted under "%s.%s is not None"' % (obj, attr),
                       '%s.%s may be absent (the writer omits it when None) but is subscripted unguarded' % (obj, attr), 'unguarded-optional')
    return n


class _AxisHooks(_Hooks):
    """setters and getters interpreted for real (not summarised as 'store under the private attribute')"""
    def opaque(self, interp, fi, args, kwargs, node):
        if fi.name in ('validate_array', 'validate_scalar'):
            return args[1] if len(args) > 1 else kwargs.get('value')
        return NotImplemented

    def setter(self, interp, obj, name, val, setter_fi, node):
        return NotImplemented


def check_axis_pair(ctx):
    """BaseCube keeps one spectral axis and derives the other: after any two assignments (wav/nu, in either order) both getters must
    describe the axis assigned last. The reader's reversal assigns cube.wav a second time and every consumer then reads cube.nu."""
    repo = ctx.repo
    ci = repo.cls('sed.cube', 'BaseCube')
    N = 'n'
    fns = {k: repo.func('sed.cube', 'BaseCube.%s' % k) for k in ('wav@getter', 'wav@setter', 'nu@getter', 'nu@setter')}
    for f in fns.values():
        ctx.fn(f)
    unit_of = {'wav': 'micron', 'nu': 'Hz'}
    for first in ('wav', 'nu'):
        for second in ('wav', 'nu'):
            I = _Interp(repo, _AxisHooks())
            o = _Obj(ci, {'_wav': None, '_nu': None})
            a = _symarr('A', (N,), unit=_unit_atom(unit_of[first]))
            b = _symarr('B', (N,), unit=_unit_atom(unit_of[second]))
            I.call(fns[first + '@setter'], [a], selfv=o)
            I.call(fns[second + '@setter'], [b], selfv=o)
            for read in ('wav', 'nu'):
                got = I.call(fns[read + '@getter'], [], selfv=o)
                ref = _sym('B', N) if read == second else _alg.mk_fn('spectral', _alg.P(_sym('B', N)))
                _compare(ctx, 'PERM-5', 'cube.%s after cube.%s = A; cube.%s = B' % (read, first, second), _loc(fns[read + '@getter']), got, ref, (N,), vocab={'A', 'B'}, fns={'spectral'},
                         findings=I.findings, detail_ok='describes B, the axis assigned last')


def check_get_sed(ctx):
    """SEDCube.get_sed interpreted on a symbolic cube: the SED returned for a name is the slice of val / unc at the first position where the cube's names
    equal that name - on the *full* model axis, the one the fitter indexes - with name, distance, both spectral axes and the apertures carried over."""
    repo = ctx.repo
    gs = ctx.fn(repo.func('sed.cube', 'SEDCube.get_sed'))
    M, A, N = 'm', 'a', 'n'
    I = _Interp(repo, _AxisHooks())
    o = _Obj(repo.cls('sed.cube', 'SEDCube'), {'_names': _symarr('cnames', (M,)), '_val': _symarr('cubeval', (M, A, N), unit=_unit_atom('mJy')), '_unc': _symarr('cubeunc', (M, A, N), unit=_unit_atom('mJy')),
                                               '_wav': _symarr('cwav', (N,), unit=_unit_atom('micron')), '_nu': None, '_apertures': _symarr('cap', (A,), unit=_unit_atom('au')),
                                               '_distance': _scalar(_sym('dist'), _unit_atom('kpc')), '_valid': _symarr('cvalid', (M,))})
    out = I.call(gs, [_scalar(_sym('qname'))], selfv=o)
    where_ = _loc(gs)
    vocab = {'cnames', 'cubeval', 'cubeunc', 'cwav', 'cap', 'dist', 'qname', 'cvalid'}
    # (searchsorted on the names as they are stored - in no particular order - is a position of its own, not the position of the name)
    fns = {'first', 'spectral', 'searchsorted'}
    if not isinstance(out, _Obj):
        _compare(ctx, 'AXIS', 'get_sed model index', where_, out, _alg.Poly(), findings=I.findings)
        return
    pos = _alg.mk_fn('first', _alg.B(M, _alg.eq(_sym('cnames', M), _sym('qname'))))
    get = lambda k: I.getattr(out, k, None, gs.module)
    for tgt, src in (('flux', 'cubeval'), ('error', 'cubeunc')):
        _compare(ctx, 'AXIS', 'get_sed %s' % tgt, where_, get(tgt), _alg.mk_fn('at', _alg.B(M, _sym(src, M, A, N)), _alg.P(pos)), (A, N), vocab=vocab, fns=fns, findings=I.findings,
                 detail_ok='sed.%s == %s[first m with names[m] == model_name, :, :]' % (tgt, 'val' if tgt == 'flux' else 'unc'))
    for tgt, ref, dims in (('name', _sym('qname'), ()), ('distance', _sym('dist'), ()), ('wav', _sym('cwav', N), (N,)), ('nu', _alg.mk_fn('spectral', _alg.P(_sym('cwav', N))), (N,)), ('apertures', _sym('cap', A), (A,))):
        _compare(ctx, 'AXIS', 'get_sed carries %s over' % tgt, where_, get(tgt), ref, dims, vocab=vocab, fns=fns, detail_ok='copied from the cube')
    # a cube without uncertainties: the SED is still extracted (nothing is subscripted that is absent) and carries no error
    I2 = _Interp(repo, _AxisHooks())
    o2 = _Obj(repo.cls('sed.cube', 'SEDCube'), dict(o.attrs))
    o2.attrs['_unc'] = None
    out2 = I2.call(gs, [_scalar(_sym('qname'))], selfv=o2)
    if isinstance(out2, _Obj):
        _compare(ctx, 'AXIS', 'get_sed flux (cube without uncertainties)', where_, I2.getattr(out2, 'flux', None, gs.module), _alg.mk_fn('at', _alg.B(M, _sym('cubeval', M, A, N)), _alg.P(pos)), (A, N),
                 vocab=vocab, fns=fns, findings=I2.findings, detail_ok='extracted as before')
        e2 = out2.attrs.get('_error', out2.attrs.get('error'))
        ctx.expect(e2 is None, 'AXIS', 'get_sed error (cube without uncertainties)', where_, 'absent uncertainties give an SED without errors', 'error is %r' % (e2,), 'get-sed-no-unc')
    elif isinstance(out2, _Unk) and ('always raises' in out2.why or getattr(I2, 'uncaught', None)):
        ctx.violation('AXIS', 'get_sed (cube without uncertainties)', where_, 'extracting an SED from a cube that holds no uncertainties raises (%s)' % (getattr(I2, 'uncaught', None) or out2.why)[:120], 'get-sed-raises')
    else:
        _compare(ctx, 'AXIS', 'get_sed (cube without uncertainties)', where_, out2, _alg.Poly(), findings=I2.findings)


def run(ctx):
    common.check_shared_class_state(ctx, [('sed.cube', 'BaseCube'), ('sed.cube', 'SEDCube'), ('sed.sed', 'SED'), ('convolved_fluxes.convolved_fluxes', 'ConvolvedFluxes')])
    """The round trips are decided by interpreting writer and reader on a symbolic file (roundtrip.py). The older syntactic rules (column / keyword
    agreement tables, the reversal block, the order applied in SED.write, the None guards) run only for a family whose interpretation did not reach a
    verdict, and then they may only say "undecided": they recognise one way of writing the code."""
    from .. import roundtrip
    repo = ctx.repo
    decided = {'sed': roundtrip.check_sed(ctx, 'AGREE-4', 'PERM-4'), 'cube': roundtrip.check_cube(ctx, 'AGREE-5', 'PERM-5'), 'conv': roundtrip.check_conv(ctx, 'AGREE-3')}
    common.api_literal_rule(ctx, ['sed.helpers'], min_sites=1)
    common.api_rule(ctx, ['sed.helpers', 'sed.sed', 'sed.cube', 'convolved_fluxes.convolved_fluxes', 'utils.io'], min_chains=120)
    check_axis_pair(ctx)
    check_get_sed(ctx)
    from . import c15
    c15.check_conversions(ctx)       # reading in a requested flux unit goes through convert_flux: reading in the unit the file is stored in gives the stored values
    if not all(decided.values()):
        sus = roundtrip.SuspectCtx(ctx, 'the round trip was not decided by interpretation and the syntactic rule, which knows one spelling only, reports')
        try:
            syntactic_rules(sus, decided)
        except AnalysisError as e:
            ctx.undecided('AGREE-4', 'syntactic fall-back', 'sedfitter/sed', 'structure not recognised: %s' % e)


def syntactic_rules(ctx, decided):
    repo = ctx.repo
    sw, sr = repo.func('sed.sed', 'SED.write'), repo.func('sed.sed', 'SED.read')
    if not decided['sed']:
        fitsmodel.check_pair(ctx, 'AGREE-4', sw, sr, {k: k for k in ('name', 'distance', 'apertures', 'wav', 'nu', 'flux', 'error')}, where, [('distance', 'DISTANCE')])
    cw, cr = repo.func('sed.cube', 'BaseCube.write'), repo.func('sed.cube', 'BaseCube.read')
    if not decided['cube']:
        fitsmodel.check_pair(ctx, 'AGREE-5', cw, cr, {k: k for k in ('distance', 'valid', 'names', 'wav', 'apertures', 'val', 'unc')}, where, [('distance', 'DISTANCE')])
    fw, fr = repo.func('convolved_fluxes.convolved_fluxes', 'ConvolvedFluxes.write'), repo.func('convolved_fluxes.convolved_fluxes', 'ConvolvedFluxes.read')
    if not decided['conv']:
        fitsmodel.check_pair(ctx, 'AGREE-3', fw, fr, {k: k for k in ('central_wavelength', 'apertures', 'model_names', 'flux', 'error')}, where, [('central_wavelength', 'FILTWAV')])
    # ---- reversal
    sed_axes, _ = declared_axes(repo, repo.cls('sed.sed', 'SED'))
    cube_axes, _ = declared_axes(repo, repo.cls('sed.cube', 'SEDCube'))
    Rs = fitsmodel.Reader(sr)
    if not decided['sed']:
        check_reversal(ctx, 'PERM-4', ctx.fn(sr), Rs.obj, sed_axes, ['wav', 'nu', 'flux', 'error'])
    Rc = fitsmodel.Reader(cr)
    if not decided['cube']:
        check_reversal(ctx, 'PERM-5', ctx.fn(cr), Rc.obj, cube_axes, ['wav', 'val', 'unc'])
    if decided['sed']:
        return
    # ---- PERM-6: reordering in SED.write
    W = fitsmodel.Writer(sw)
    sorts = [c for c in calls(sw.node) if isinstance(c.func, ast.Attribute) and c.func.attr == 'sort' and isinstance(c.func.value, ast.Name) and c.func.value.id in W.tables]
    reidx = [(t, v) for t, v, st in stores(sw.node) if isinstance(t, ast.Name) and isinstance(v, ast.Subscript) and isinstance(v.value, ast.Name) and v.value.id in W.tables and isinstance(v.slice, ast.Name)]
    spectral_cols = []
    for var in W.order:
        for c, e in W.hdus[var].columns:
            roots = fitsmodel.attr_roots(e, W.me, W.env())
            for a in roots:
                if a in sed_axes and 'n_wav' in sed_axes[a] and len(sed_axes[a]) > 1:
                    spectral_cols.append((c, e, a))
    if sorts:
        ctx.violation('PERM-6', 'SED.write reorders the spectral table', where(sw, sorts[0]), 'the wavelength table is sorted in place (%s) but %s keep the caller\'s order: cells are re-labelled'
                      % (up(sorts[0]), [c for c, _, _ in spectral_cols]), 'table-sorted-alone')
    elif reidx:
        ordn = reidx[0][1].slice.id
        bad = []
        for c, e, a in spectral_cols:
            p = sed_axes[a].index('n_wav')
            okk = isinstance(e, ast.Subscript) and isinstance(e.slice, ast.Tuple) and len(e.slice.elts) > p and isinstance(e.slice.elts[p], ast.Name) and e.slice.elts[p].id == ordn \
                and all(isinstance(x, ast.Slice) and x.lower is None and x.upper is None and x.step is None for i, x in enumerate(e.slice.elts) if i != p)
            if not okk:
                bad.append('%s = %s' % (c, up(e)))
        ctx.expect(not bad and len(spectral_cols) >= 2, 'PERM-6', 'SED.write applies one order to every spectral array', where(sw), 'table and %s indexed by %s on the spectral axis' % ([c for c, _, _ in spectral_cols], ordn),
                   'the spectral table is reordered by %s but not: %s' % (ordn, bad), 'order-not-shared')
    else:
        ctx.ok('PERM-6', 'SED.write keeps the caller\'s order', where(sw), 'no reordering on write: the reader\'s reversal restores the requested order')




SE = 'sedfitter/sed/sed.py'
CU = 'sedfitter/sed/cube.py'
CF = 'sedfitter/convolved_fluxes/convolved_fluxes.py'
HE = 'sedfitter/sed/helpers.py'
MUST_FIRE = [
    ('get_sed looks the name up among the valid models only, then indexes the full arrays', [(CU, "sed_index = np.nonzero(self.names == model_name)[0][0]", "sed_index = np.nonzero(self.names[self.valid.astype(bool)] == model_name)[0][0]")]),
    ('get_sed takes the last match', [(CU, "sed_index = np.nonzero(self.names == model_name)[0][0]", "sed_index = np.nonzero(self.names == model_name)[0][-1]")]),
    ('cube nu getter keeps the derived axis', [(CU, "            return self._wav.to(u.Hz, equivalencies=u.spectral())\n        else:\n            return self._nu", "            self._nu = self._wav.to(u.Hz, equivalencies=u.spectral())\n        return self._nu")]),
    ('cube wav setter leaves the old nu in place', [(CU, "            self._nu = None\n            self._wav = validate_array('wav'", "            self._wav = validate_array('wav'")]),
    ('SED reversal omits error', [(SE, "            sed.error = sed.error[..., ::-1]\n", "")]),
    ('SED flux reversed on axis 0', [(SE, "sed.flux = sed.flux[..., ::-1]", "sed.flux = sed.flux[::-1, ...]")]),
    ('cube val reversed on the aperture axis (D6 reverted)', [(CU, "cube.val = cube.val[:, :, ::-1]", "cube.val = cube.val[:, ::-1, :]")]),
    ('SED writer unit columns swapped', [(SE, "hdu3.columns[0].unit = self.flux.unit.to_string(format='fits')\n        hdu3.columns[1].unit = self.error.unit.to_string(format='fits')", "hdu3.columns[1].unit = self.flux.unit.to_string(format='fits')\n        hdu3.columns[0].unit = self.error.unit.to_string(format='fits')")]),
    ('get_sed error from val', [(CU, "sed.error = self.unc[sed_index, :,:]", "sed.error = self.val[sed_index, :,:]")]),
    ('guard on unc removed in read', [(CU, "            if cube.unc is not None:\n                cube.unc = cube.unc[:, :, ::-1]", "            cube.unc = cube.unc[:, :, ::-1]")]),
    ('parse_strict=False', [(HE, "parse_strict='silent'", "parse_strict=False")]),
    ('SED reader takes TOTAL_FLUX for the error', [(SE, "error = hdulist[3].data.field('TOTAL_FLUX_ERR')", "error = hdulist[3].data.field('TOTAL_FLUX')")]),
    ('SED reader wrong HDU for apertures', [(SE, "ap = hdulist[2].data.field('APERTURE') * parse_unit_safe(hdulist[2].columns[0].unit)", "ap = hdulist[1].data.field('APERTURE') * parse_unit_safe(hdulist[1].columns[0].unit)")]),
    ('FILTWAV written in nm', [(CF, "hdu0.header['FILTWAV'] = self.central_wavelength.to(u.micron).value", "hdu0.header['FILTWAV'] = self.central_wavelength.to(u.nm).value")]),
    ('convolved reader flux from the error column', [(CF, "conv.flux = tc['TOTAL_FLUX'].data * tc['TOTAL_FLUX'].unit", "conv.flux = tc['TOTAL_FLUX_ERR'].data * tc['TOTAL_FLUX'].unit")]),
    ('cube reader reads unc from VALUES', [(CU, "hdu_unc = hdulist['UNCERTAINTIES']", "hdu_unc = hdulist['VALUES']")]),
    ('cube writer stores val in UNCERTAINTIES', [(CU, "hdu5 = fits.ImageHDU(self.unc.value)", "hdu5 = fits.ImageHDU(self.val.value)")]),
    ('SED.write sorts the table alone (D7 reverted)', [(SE, "        order = np.argsort(twav['FREQUENCY'])\n        twav = twav[order]\n", "        twav.sort('FREQUENCY')\n        order = slice(None)\n")]),
    ('SED.write permutes flux but not error', [(SE, "tflux['TOTAL_FLUX_ERR'] = self.error[:, order]", "tflux['TOTAL_FLUX_ERR'] = self.error")]),
    ('reversal guard tests the wrong end', [(SE, "(order == 'wav' and sed.wav[0] > sed.wav[-1])", "(order == 'wav' and sed.wav[0] < sed.wav[-1])")]),
    ('cube distance read as kpc', [(CU, "cube.distance = hdulist[0].header['DISTANCE'] * u.cm", "cube.distance = hdulist[0].header['DISTANCE'] * u.kpc")]),
    ('get_sed unc guard removed (D10 reverted)', [(CU, "        if self.unc is not None:\n            sed.error = self.unc[sed_index, :,:]", "        sed.error = self.unc[sed_index, :,:]")]),
    ('cube wav not reversed', [(CU, "            cube.wav = cube.wav[::-1]\n", "")]),
    ('SED nu unit from the wavelength column', [(SE, "nu = hdulist[1].data.field('FREQUENCY') * parse_unit_safe(hdulist[1].columns[1].unit)", "nu = hdulist[1].data.field('FREQUENCY') * parse_unit_safe(hdulist[1].columns[0].unit)")]),
    ('get_sed indexes the aperture axis', [(CU, "sed.flux = self.val[sed_index, :,:]", "sed.flux = self.val[:, sed_index, :]")]),
]
MUST_SILENT = [
    ('get_sed index through np.where and a temporary', [(CU, "sed_index = np.nonzero(self.names == model_name)[0][0]", "matches = np.where(self.names == model_name)[0]\n            sed_index = matches[0]")]),
    ('cube wav setter validates first, then drops nu', [(CU, "            self._nu = None\n            self._wav = validate_array('wav', value, domain='positive', ndim=1,\n                                       shape=None if self.nu is None else (len(self.nu),),\n                                       physical_type='length')",
                                                             "            value = validate_array('wav', value, domain='positive', ndim=1,\n                                   shape=None if self.nu is None else (len(self.nu),),\n                                   physical_type='length')\n            self._nu = None\n            self._wav = value")]),
    ('explicit last-axis slice', [(SE, "sed.flux = sed.flux[..., ::-1]", "sed.flux = sed.flux[:, ::-1]")]),
    ('reader via a local HDU variable', [(SE, "ap = hdulist[2].data.field('APERTURE') * parse_unit_safe(hdulist[2].columns[0].unit)", "hdu_ap = hdulist[2]\n        ap = hdu_ap.data.field('APERTURE') * parse_unit_safe(hdu_ap.columns[0].unit)")]),
    ('guard written with flipped comparison', [(SE, "(order == 'nu' and sed.nu[0] > sed.nu[-1])", "(order == 'nu' and sed.nu[-1] < sed.nu[0])")]),
    ('cube reversal with ellipsis', [(CU, "cube.val = cube.val[:, :, ::-1]", "cube.val = cube.val[..., ::-1]")]),
]


def thorough(ctx):
    from .. import selftest
    selftest.run(ctx, MUST_FIRE, MUST_SILENT)
