"""C11 Fits do not depend on labelling, ordering, units of brightness, or history."""
from .. import alg, fitmodel as fm
from ..alg import Poly, P, B, C, sym, sum_over, lt, mk_fn
from ..interp import Interp, Hooks, Arr, Obj, Unk, symarr, scalar, num
from ..fitmodel import W, M, D, FLAGS, loc, compare
from ..effects import Effects
from ..loader import AnalysisError

EXPLANATION = (
    "(EFF-3) permutation equivariance: in the terms Models.fit stores into info.av/.sc/.chi2 (both branches, kernels as atoms) the filter axis "
    "occurs only bound inside reductions (kernel atoms reduce over it; inside the kernels the only binders of the filter axis are sums), the model "
    "axis only free and element-wise, no constant/positional index is applied to either axis, and no order-dependent operation (cumsum, sort, "
    "reversal, slice, argmin/argsort) binds the filter or model axis before the final ranking. (ALG-2) brightness shift: the flag-1/2/3 transform "
    "satisfies L(cF,cE) = L(F,E) + log10 c with weight and log-error unchanged; linear_regression and optimal_scaling are additive in the data and "
    "return (0,1)/(1,0)/1 on their own patterns; chi_squared depends on data and model only through their difference; with sc_law == -2 a factor c "
    "therefore moves every scale by -0.5 log10 c and leaves A_V and chi^2 unchanged. (EFF-1) purity: over the transitive callees of Fitter.fit no "
    "store has a root that aliases the Fitter, the Models, the source argument or any of their arrays; every in-place store targets an array created in "
    "the same call.")
NOT_DECIDED = ["rank order among exactly tied models under model permutation (argsort tie order)"]
ASSUMPTIONS = ["numpy arithmetic, comparisons and fancy/boolean reads return new arrays; basic slices and attribute reads are views/aliases",
               "remove_resolved off"]
TRUSTED = ["python ast", "sedlint E4/E5/E6"]
MIN = {'EFF-3': 8, 'ALG-2': 12, 'EFF-1': 9}
TECHNIQUE = 'static analysis: free/bound axis-label analysis of value-numbered terms, substitution identities in the polynomial normal form, and an alias/ownership (effect) analysis over the call graph of Fitter.fit'

ORDER_FNS = {'cumsum', 'sort', 'rev', 'slice', 'argmin', 'argmax', 'argsort', 'at', 'searchsorted', 'interp', 'lininterp'}


# reductions that do not depend on the order of the elements they reduce
SYMMETRIC = {'sum', 'any', 'all', 'max', 'min', 'nanmax', 'nanmin', 'len', 'LRc', 'OS', 'CHI'}


def binders(p, label):
    """names of atoms that bind ``label`` anywhere in p"""
    out = []
    for a in alg.contains_atom(p, lambda a: (a[0] == 'sum' and a[1] == label) or (a[0] == 'fn' and any(x[0] == 'B' and x[1] == label for x in a[2:]))):
        out.append('sum' if a[0] == 'sum' else a[1])
    return out


def check_equivariance(ctx):
    repo = ctx.repo
    fit = ctx.fn(repo.func('models', 'Models.fit'))
    for nd in (2, 3):
        I, h, info = fm.interpret_models_fit(repo, nd)
        where = loc(fit)
        if h.presort is None:
            ctx.undecided('EFF-3', 'Models.fit %d-D' % nd, where, 'sort() not reached: %r %s' % (info, I.findings[:1]))
            continue
        ps = h.presort
        for nm in ('av', 'sc', 'chi2', 'model_fluxes'):
            v = ps.get(nm)
            inst = 'info.%s %d-D' % (nm, nd)
            if not isinstance(v, Arr):
                if isinstance(v, Unk) and v.definite:
                    ctx.violation('EFF-3', inst, where, 'axis roles are inconsistent: %s' % v.why, 'axis')
                else:
                    ctx.undecided('EFF-3', inst, where, 'not modelled: %r' % (v,))
                continue
            free = alg.poly_labels(v.poly)
            allowed = {M} | ({W} if nm == 'model_fluxes' else set())
            bw = [b for b in binders(v.poly, W) if b not in SYMMETRIC]
            bm = [b for b in binders(v.poly, M) if b not in ('any', 'all')]          # (a test "is there any model that ..." guarding a masked store does not make one model's result depend on another's)
            probs = []
            if not free <= allowed:
                probs.append('depends on position along axes %s' % sorted(free - allowed))
            if bw:
                probs.append('order-dependent operations on the filter axis: %s' % bw)
            if bm:
                probs.append('operations across the model axis before ranking: %s' % bm)
            ctx.expect(not probs, 'EFF-3', inst, where, 'filter axis only bound in reductions%s; model axis free element-wise' % (' / free element-wise' if nm == 'model_fluxes' else ''),
                       '; '.join(probs), 'equivariance')
        pos = [(lab, i, ln) for lab, i, path, ln in I.positional if lab in (W, M)]
        ctx.expect(not pos, 'EFF-3', 'no positional index on the filter/model axis, %d-D' % nd, where, 'no constant index on a filter or model axis',
                   'constant positions used on labelled axes: %s' % pos, 'positional')
    # inside the kernels: only sums bind the filter axis
    for name, args in (('linear_regression', [symarr('R', (M, W)), symarr('wt', (W,)), symarr('A', (W,)), symarr('S', (W,))]),
                       ('optimal_scaling', [symarr('R', (M, D, W)), symarr('wt', (W,)), symarr('A', (W,))]),
                       ('chi_squared', [symarr('valid', (W,), unit=num(1)), symarr('data', (M, W)), symarr('conf', (W,)), symarr('wt', (W,)), symarr('model', (M, W))]),
                       ('chi_squared', [symarr('valid', (W,), unit=num(1)), symarr('data', (M, D, W)), symarr('conf', (W,)), symarr('wt', (W,)), symarr('model', (M, D, W))])):
        fi = ctx.fn(repo.func('fitting_routines', name))
        I, out = fm.run_kernel(repo, name, args)
        vals = out if isinstance(out, tuple) else (out,)
        inst = 'kernel %s (%d-D)' % (name, args[1].ndim if name == 'chi_squared' else args[0].ndim)
        if not all(isinstance(v, Arr) for v in vals):
            defin = [v for v in vals if isinstance(v, Unk) and v.definite]
            if defin or I.findings:
                ctx.violation('EFF-3', inst, loc(fi), 'axis roles are inconsistent: %s' % (defin[0].why if defin else I.findings[0].msg), 'axis')
            else:
                ctx.undecided('EFF-3', inst, loc(fi), 'not modelled: %r' % (vals,))
            continue
        probs = []
        for v in vals:
            if W in alg.poly_labels(v.poly):
                probs.append('result depends on filter position')
            b = [x for x in binders(v.poly, W) if x not in SYMMETRIC]
            if b:
                probs.append('order-dependent operations on the filter axis: %s' % b)
        pos = [(lab, i) for lab, i, path, ln in I.positional if lab in (W, M)]
        if pos:
            probs.append('constant positions used: %s' % pos)
        for v in vals:
            derived = sorted(l for l in alg.all_labels(v.poly) if isinstance(l, str) and l not in (W, M, D) and l[:1] in (W, M))
            if derived:
                probs.append('a slice of the filter/model axis is used: %s' % derived)
        ctx.expect(not probs, 'EFF-3', inst, loc(fi), 'the filter axis is bound only by sums', '; '.join(probs), 'kernel-equivariance')


def check_shift(ctx):
    repo = ctx.repo
    glf, nd, rows = fm.flag_rows(repo)
    ctx.fn(glf)
    c = sym('c')
    ln10 = alg.ln(Poly.const(10))
    for k in (1, 2, 3):
        out = rows[k][0]
        if not (isinstance(out, tuple) and all(isinstance(x, Arr) for x in out)):
            ctx.undecided('ALG-2', 'flag %d transform under F,E -> cF,cE' % k, loc(glf), 'not modelled')
            continue
        wt, lf, le = out
        scaleE = (k == 1)      # limits carry a confidence, not an error
        mp = {'Fs': lambda labs: c * sym('Fs', W)}
        if scaleE:
            mp['Es'] = lambda labs: c * sym('Es', W)
        compare(ctx, 'ALG-2', 'flag %d: log flux shifts by log10 c' % k, loc(glf), Arr((W,), alg.subst_sym(lf.poly, mp) - lf.poly), alg.log10(c), (W,),
                vocab={'Fs', 'Es', 'c'}, findings=[f_ for f_ in rows[k][2] if f_.kind == 'dtype'], detail_ok='L(cF, cE) - L(F, E) == log10 c')
        compare(ctx, 'ALG-2', 'flag %d: weight and log error are scale-free' % k, loc(glf),
                Arr((W,), (alg.subst_sym(wt.poly, mp) - wt.poly) + sym('z') * (alg.subst_sym(le.poly, mp) - le.poly)), Poly(), (W,), vocab={'Fs', 'Es', 'c', 'z'},
                detail_ok='weight(cF,cE) == weight(F,E) and log_error(cF,cE) == log_error(F,E)')
    # kernels: additivity and values on their own patterns
    lr = ctx.fn(repo.func('fitting_routines', 'linear_regression'))
    osf = ctx.fn(repo.func('fitting_routines', 'optimal_scaling'))
    chi = ctx.fn(repo.func('fitting_routines', 'chi_squared'))
    I, out = fm.run_kernel(repo, 'linear_regression', [symarr('R', (M, W)), symarr('wt', (W,)), symarr('A', (W,)), symarr('S', (W,))])
    if isinstance(out, tuple) and all(isinstance(x, Arr) for x in out):
        x1, x2 = out
        two = {'R': lambda labs: sym('R1', M, W) + sym('k') * sym('R2', M, W)}
        for nm, x in (('av', x1), ('sc', x2)):
            lhs = alg.subst_sym(x.poly, two)
            rhs = alg.subst_sym(x.poly, {'R': lambda labs: sym('R1', M, W)}) + sym('k') * alg.subst_sym(x.poly, {'R': lambda labs: sym('R2', M, W)})
            compare(ctx, 'ALG-2', 'linear_regression %s coefficient is linear in the data' % nm, loc(lr), Arr((M,), lhs), rhs, (M,), vocab={'R1', 'R2', 'k', 'wt', 'A', 'S'})
        onS = {'R': lambda labs: sym('S', W)}
        onA = {'R': lambda labs: sym('A', W)}
        compare(ctx, 'ALG-2', 'regressing the scale pattern gives (0, 1)', loc(lr), Arr((M,), alg.subst_sym(x1.poly, onS) + sym('z') * (alg.subst_sym(x2.poly, onS) - 1)), Poly(), (M,),
                vocab={'wt', 'A', 'S', 'z'}, detail_ok='data := pattern2 -> (x1, x2) == (0, 1): a pure flux factor only moves the scale')
        compare(ctx, 'ALG-2', 'regressing the extinction pattern gives (1, 0)', loc(lr), Arr((M,), (alg.subst_sym(x1.poly, onA) - 1) + sym('z') * alg.subst_sym(x2.poly, onA)), Poly(), (M,),
                vocab={'wt', 'A', 'S', 'z'})
    else:
        ctx.undecided('ALG-2', 'linear_regression homogeneity', loc(lr), 'not modelled')
    I, out = fm.run_kernel(repo, 'optimal_scaling', [symarr('R', (M, W)), symarr('wt', (W,)), symarr('A', (W,))])
    if isinstance(out, Arr):
        two = {'R': lambda labs: sym('R1', M, W) + sym('k') * sym('R2', M, W)}
        rhs = alg.subst_sym(out.poly, {'R': lambda labs: sym('R1', M, W)}) + sym('k') * alg.subst_sym(out.poly, {'R': lambda labs: sym('R2', M, W)})
        compare(ctx, 'ALG-2', 'optimal_scaling is linear in the data', loc(osf), Arr((M,), alg.subst_sym(out.poly, two)), rhs, (M,), vocab={'R1', 'R2', 'k', 'wt', 'A'})
        compare(ctx, 'ALG-2', 'optimal_scaling of its own pattern is 1', loc(osf), Arr((M,), alg.subst_sym(out.poly, {'R': lambda labs: sym('A', W)})), Poly.const(1), (M,), vocab={'wt', 'A'})
    else:
        ctx.undecided('ALG-2', 'optimal_scaling homogeneity', loc(osf), 'not modelled')
    for dd in ((M, W), (M, D, W)):
        for k in FLAGS:
            I, out = fm.run_kernel(repo, 'chi_squared', [Arr((W,), num(k)), symarr('data', dd), symarr('conf', (W,)), symarr('wt', (W,)), symarr('model', dd)])
            inst = 'chi^2 of flag %d depends on data - model only, %d-D' % (k, len(dd))
            if not isinstance(out, Arr):
                ctx.undecided('ALG-2', inst, loc(chi), 'not modelled')
                continue
            t = sym('t', W)
            sh = alg.subst_sym(out.poly, {'data': lambda labs: sym('data', *dd) + t, 'model': lambda labs: sym('model', *dd) + t})
            compare(ctx, 'ALG-2', inst, loc(chi), Arr(out.dims, sh), out.poly, dd[:-1], vocab={'data', 'model', 'conf', 'wt', 't'},
                    detail_ok='chi2(data + t, model + t) == chi2(data, model)')


PARAM_TYPES = {('Fitter.fit', 'source'): ('source.source', 'Source'), ('Models.fit', 'source'): ('source.source', 'Source')}


def check_purity(ctx):
    repo = ctx.repo
    E = Effects(repo, PARAM_TYPES)
    entry = ctx.fn(repo.func('fit', 'Fitter.fit'))
    seen, todo = {}, [entry]
    while todo:
        fi = todo.pop()
        if fi.qual in seen:
            continue
        s = E.summary(fi)
        seen[fi.qual] = s
        for callee, node in s.calls:
            todo.append(callee)
    if len(seen) < 6:
        raise AnalysisError('call graph of Fitter.fit resolved only %d functions' % len(seen))
    n_stores = 0
    for q, s in sorted(seen.items()):
        fi = ctx.fn(s.fi)
        n_stores += len(s.stores)
    ctx.analysed['stores'] += n_stores
    # what the caller of Fitter.fit can observe: mutation of self (the Fitter and everything reachable) or of source
    s = seen[entry.qual]
    for pn, label in (('self', 'the Fitter / its Models / their arrays'), ('source', 'the source argument')):
        sites = s.mutates.get(pn, [])
        if sites:
            for node, txt in sites:
                ctx.violation('EFF-1', 'Fitter.fit modifies %s' % label, loc(entry, getattr(node, 'lineno', None)), 'store reaches caller-owned state: %s' % txt, 'mutates-%s:%s' % (pn, txt[:60]))
        else:
            ctx.ok('EFF-1', 'Fitter.fit does not modify %s' % label, loc(entry), 'no store in %d reachable functions (%d stores classified) has a root aliasing it' % (len(seen), n_stores))
    # per-callee detail: functions that mutate a parameter at all (other than constructors / FitInfo's own methods on a fresh record)
    for q, s in sorted(seen.items()):
        fi = s.fi
        bad = {p: v for p, v in s.mutates.items() if not (fi.cls is not None and fi.cls.name in ('FitInfo', 'FitInfoMeta') and p == fi.params[0])}
        # a callee that writes into a parameter is judged at its call sites (the obligations above follow every such store back to what the caller passed:
        # a freshly created array is fine, the Fitter / Models / source or one of their arrays is not); listed here for the record
        ctx.ok('EFF-1', '%s: stores classified' % q.split(':')[1], loc(fi),
               ('%d stores, all into fresh arrays/objects' % len(s.stores)) if not bad else
               ('%d stores; writes into its parameters %s, followed to the call sites' % (len(s.stores), {p: [t for _, t in v][:2] for p, v in bad.items()})))


def run(ctx):
    check_equivariance(ctx)
    check_shift(ctx)
    check_purity(ctx)
    from . import common
    common.check_shared_class_state(ctx, [('models', 'Models'), ('fit', 'Fitter'), ('fit_info', 'FitInfo'), ('source.source', 'Source')])
    from . import c01, c02
    c01.check_fit_2d(ctx)        # multiplying the fluxes by c shifts the scale and nothing else: the residuals the kernels are given are log flux - log model flux for every flag
    c02.check_fit_3d(ctx)
    c02.check_readers(ctx)       # 'nor on history': what a Fitter holds after reading a package is a function of the package (no cell of its arrays is left as it was found in memory)


MO = 'sedfitter/models.py'
FR = 'sedfitter/fitting_routines.py'
SO = 'sedfitter/source/source.py'
FT = 'sedfitter/fit.py'
MUST_FIRE = [
    ('source flux rescaled in place', [(MO, "        weight, log_flux, log_error = source.get_log_fluxes()\n", "        source.flux /= 1.\n        weight, log_flux, log_error = source.get_log_fluxes()\n")]),
    ('source.valid edited', [(MO, "        model_fluxes = self.log_fluxes_mJy\n\n        if model_fluxes.ndim == 2:", "        source.valid[source.valid == 9] = 0\n        model_fluxes = self.log_fluxes_mJy\n\n        if model_fluxes.ndim == 2:")]),
    ('result cached on self', [(MO, "        info = FitInfo()\n        info.source = source", "        info = FitInfo()\n        self.last = info\n        self.names[0] = self.names[0]\n        info.source = source")]),
    ('self._fluxes scaled in place', [(MO, "        weight, log_flux, log_error = source.get_log_fluxes()\n", "        self._fluxes *= 1\n        weight, log_flux, log_error = source.get_log_fluxes()\n")]),
    ('first filter weighted double', [(MO, "        model_fluxes = self.log_fluxes_mJy\n\n        if model_fluxes.ndim == 2:", "        weight[0] *= 2\n        model_fluxes = self.log_fluxes_mJy\n\n        if model_fluxes.ndim == 2:")]),
    ('cumsum on the filter axis', [(FR, "chi2_array = (data - model) ** 2 * weight", "chi2_array = (data - model) ** 2 * np.cumsum(weight)")]),
    ('av_law modified in place', [(MO, "            residual = log_flux - model_fluxes\n            av_best, sc_best", "            av_law[0] = av_law[0]\n            residual = log_flux - model_fluxes\n            av_best, sc_best")]),
    ('Fitter remembers the source', [(FT, "        info.meta.model_dir = self.model_dir\n", "        self.models.names = self.models.names\n        info.meta.model_dir = self.model_dir\n")]) if False else
    ('Fitter av_range updated', [(FT, "        info.meta.model_dir = self.model_dir\n", "        self.filters.append(None)\n        info.meta.model_dir = self.model_dir\n")]),
    ('get_log_fluxes writes back', [(SO, "        return weight, log_flux, log_error", "        self.error[self.valid == 0] = 0.\n        return weight, log_flux, log_error")]),
    ('log flux not shifted for flag 1', [(SO, "        r = self.valid == 1\n        log_flux[r] = np.log10(self.flux[r]) - 0.5 * (self.error[r] / self.flux[r]) ** 2. / np.log(10.)", "        r = self.valid == 1\n        log_flux[r] = np.log10(self.flux[r]) - 0.5 * (self.error[r]) ** 2. / np.log(10.)")]),
    ('absolute error weight', [(SO, "        log_error[r] = np.abs(self.error[r] / self.flux[r]) / np.log(10.)\n        weight[r]", "        log_error[r] = np.abs(self.error[r]) / np.log(10.)\n        weight[r]")]),
    ('chi2 on data only', [(FR, "chi2_array = (data - model) ** 2 * weight", "chi2_array = (data - model) ** 2 * weight + 0 * data + data * 0.001")]),
    ('last filter ignored', [(FR, "c1 = np.sum(data * pattern1 * weights, axis=1)", "c1 = np.sum((data * pattern1 * weights)[:, :-1], axis=1)")]),
    ('models compared to the first model', [(MO, "            ch_best = f.chi_squared(source.valid, residual, log_error, weight, model)\n\n            # Extract convolved model fluxes for best-fit\n            model_fluxes = model + model_fluxes", "            ch_best = f.chi_squared(source.valid, residual, log_error, weight, model)\n            ch_best = ch_best - ch_best[0]\n\n            # Extract convolved model fluxes for best-fit\n            model_fluxes = model + model_fluxes")]),
]
MUST_SILENT = [
    ('local copy modified', [(MO, "        model_fluxes = self.log_fluxes_mJy\n\n        if model_fluxes.ndim == 2:", "        wcopy = weight * 1.\n        wcopy[wcopy < 0] = 0.\n        model_fluxes = self.log_fluxes_mJy\n\n        if model_fluxes.ndim == 2:")]),
    ('fresh temporary filled in place', [(FR, "    inv_det = 1. / (m11 * m22 - m12 * m12)", "    det = m11 * m22 - m12 * m12\n    inv_det = 1. / det")]),
]


def thorough(ctx):
    from .. import selftest
    selftest.run(ctx, MUST_FIRE, MUST_SILENT)
