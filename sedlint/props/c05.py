"""C05 Selection tuples keep exactly the fits the syntax page promises."""
import ast

from .. import alg, fitmodel as fm
from ..alg import Poly, P, B, C, sym, sum_over, lt, mk_fn
from ..interp import Interp, Hooks, Arr, Obj, Unk, symarr, scalar, num, decide_with, count_atom
from ..fitmodel import W, loc, compare
from ..rules import getstate_keys, state_keys
from ..astutil import up
from ..loader import AnalysisError

R = 'r'
EXPLANATION = (
    "Finite-domain specialisation of FitInfo.keep over the selector letters {A,N,C,D,E,F}, an unknown letter and the empty result "
    "(exhaustive): (ALG-11) the number of fits kept is len(chi2) / int(n) / #[chi2<v] / #[chi2-chi2[0]<v] / #[chi2/n_data<v] / "
    "#[(chi2-chi2[0])/n_data<v], where n_data is the source's count of flags 1 and 4 (ALG-12); an unknown letter raises; an empty result keeps 0. "
    "(ALG-11x) the same four criteria on infinite / NaN chi2 and on n_data == 0, where polynomial identities do not apply (inf - inf, x / 0): the expression tree the code "
    "evaluates is compared with the syntax page's over classes of IEEE values (17 class assignments per letter). "
    "(PERM-2) every per-fit attribute (the record's state keys other than the source) is cut by the same prefix slice [:n_fits] (lower bound 0, "
    "step 1). The criterion reads only chi2, chi2[0], source.n_data and the threshold, so with an ascending ranking each criterion is monotone in "
    "rank and prefix cuts commute (keep o keep = keep; looser-then-tighter = tighter) - lemma stated, premises checked.")
NOT_DECIDED = ["behaviour at chi2 exactly equal to the threshold (excluded by the quantifier)", "placement of NaN by argsort (library); floating-point overflow of finite values",
               "min(n, total) for ('N', n) relies on python slice semantics a[:n] for n > len(a) (language fact)"]
ASSUMPTIONS = ["<= and < identified (no exact ties with the threshold)", "the record was ranked ascending (C04)"]
TRUSTED = ["python ast", "sedlint E4/E5", "python slice semantics"]
MIN = {'ALG-11': 8, 'ALG-11x': 4, 'PERM-2': 6, 'ALG-12': 2}
TECHNIQUE = 'static analysis: finite-domain specialisation of AST value numbering over the selector letters; abstract evaluation of the criterion tree over IEEE value classes; coherence set of the prefix cut'

VOCAB = {'av', 'sc', 'chi2', 'model_name', 'model_fluxes', 'model_id', 'number', 'valid'}


class KeepHooks(Hooks):
    """configuration: the ranked result is empty / non-empty (decided on the value of the test: anything that only
    depends on the number of fits)"""
    def __init__(self, empty):
        self.empty = empty
        self.consts = {count_atom(R): 0 if empty else 10 ** 6}

    def decide(self, interp, test, env, mod):
        try:
            v = interp.expr(test, dict(env), mod)
        except Exception:
            return None
        if isinstance(v, Arr) and v.ndim == 0 and not v.poly.is_const():
            syms, fns = alg.leaf_syms(v.poly)
            if not syms and fns <= {'len'}:
                return decide_with(interp, test, env, mod, consts=self.consts)
        return None


def n_data_ref():
    v = sym('valid', W)
    return sum_over(alg.eq(v, 1), W) + sum_over(alg.eq(v, 4), W)


def reference_count(letter):
    chi2, v = sym('chi2', R), sym('number')
    chi0 = mk_fn('at', B(R, sym('chi2', R)), P(Poly()))
    nd = n_data_ref()
    if letter == 'A':
        return alg.count(R)
    if letter == 'N':
        return mk_fn('int', P(v))
    if letter == 'C':
        return sum_over(lt(chi2, v), R)
    if letter == 'D':
        return sum_over(lt(chi2 - chi0, v), R)
    if letter == 'E':
        return sum_over(lt(chi2 / nd, v), R)
    if letter == 'F':
        return sum_over(lt((chi2 - chi0) / nd, v), R)
    raise KeyError(letter)


def reference_tree(letter):
    """the criterion of the syntax page as an expression tree over the leaves chi2[r], chi2[0], threshold, n_data"""
    c = ('leaf', sym('chi2', R))
    b = ('leaf', mk_fn('at', B(R, sym('chi2', R)), P(Poly())))
    v = ('leaf', sym('number'))
    n = ('leaf', n_data_ref())
    d = ('bin', 'Sub', c, b)
    return {'C': ('cmp', 'LtE', c, v), 'D': ('cmp', 'LtE', d, v), 'E': ('cmp', 'LtE', ('bin', 'Div', c, n), v), 'F': ('cmp', 'LtE', ('bin', 'Div', d, n), v)}[letter]


def bisection_as_count(n):
    """np.searchsorted(chi2, t) over the ranked chi^2 (the premise of the property: the result is ranked, chi^2 non-decreasing) is the number of fits with
    chi2 < t (side='left') or chi2 <= t (side='right'); the thresholds of the quantifier avoid equality, so both are #[chi2 < t].  Only the plain form is
    rewritten - the table is the ranked chi^2 itself and the query does not vary along it; anything else stays as it is (and is left undecided).  What a
    bisection does with infinite / NaN values is not a polynomial matter: ALG-11x evaluates it in the order numpy sorts by."""
    def repl(a):
        if a[0] == 'fn' and a[1] == 'searchsorted' and len(a) in (4, 5) and a[2][0] == 'B' and a[2][1] == R and Poly.from_key(a[2][2]) == sym('chi2', R) and a[3][0] == 'P':
            t = Poly.from_key(a[3][1])
            if R not in alg.poly_labels(t):
                return sum_over(lt(sym('chi2', R), t), R)
        return None
    try:
        return alg.rebuild(n, repl)
    except Exception:
        return n


def check_nonfinite(ctx, letter, I, n, where):
    """(ALG-11x) the criterion on infinite / NaN chi^2 and on a source without data points: decided on the expression tree the code evaluates, over classes
    of IEEE values (xreal.py) - the quantifier names infinity and NaN, and polynomial identities do not see inf - inf or x / 0."""
    from .. import xreal
    inst = "selector '%s' on infinite / NaN chi2 and n_data == 0" % letter
    trees = [t for p, kind, t in I.xr_log if kind in ('sum', 'searchsorted') and p == n]
    if not trees:
        ctx.ok('ALG-11x', inst, where, 'not evaluated: the count is not a sum over a comparison tree', nontrivial=False)
        return
    code, ref = trees[-1], reference_tree(letter)
    known = [(sym('chi2', R), 'c'), (mk_fn('at', B(R, sym('chi2', R)), P(Poly())), 'b'), (sym('number'), 'v'), (n_data_ref(), 'n')]
    for lf in xreal.leaves(code):
        if not any(lf == q for q, _ in known):
            ctx.ok('ALG-11x', inst, where, 'not evaluated: the criterion reads %s, which has no value class here' % alg.show(lf, 60), nontrivial=False)
            return
    order = {'zero': 0, 'pos': 1, 'pinf': 2}
    diffs, n_assign = [], 0
    for cc in ('zero', 'pos', 'pinf', 'nan'):
        for bc in ('zero', 'pos', 'pinf', 'nan'):
            if bc == 'nan' and cc != 'nan':
                continue              # NaN sorts last: a NaN best fit means every fit is NaN
            if bc != 'nan' and cc != 'nan' and order[bc] > order[cc]:
                continue              # the best chi2 is the smallest
            for nc in ('zero', 'pos'):
                classes = {'c': cc, 'b': bc, 'v': 'pos', 'n': nc}
                if not ({cc, bc} & xreal.SPECIAL or nc == 'zero'):
                    continue
                con = (lambda vals: vals['b'] <= vals['c']) if (cc in order and bc in order) else None
                try:
                    so, sr = xreal.outcomes(code, known, classes, con), xreal.outcomes(ref, known, classes, con)
                except KeyError as e:
                    ctx.ok('ALG-11x', inst, where, 'not evaluated: operator %s' % e, nontrivial=False)
                    return
                n_assign += 1
                if len(so) == 1 and len(sr) == 1 and so != sr:
                    names = {'zero': '0', 'pos': 'finite', 'pinf': '+inf', 'nan': 'NaN'}
                    diffs.append('chi2 %s, best chi2 %s, n_data %s: the syntax page %s the fit, the code %s it' % (names[cc], names[bc], '0' if nc == 'zero' else '> 0',
                                 'keeps' if True in sr else 'drops', 'keeps' if True in so else 'drops'))
    ctx.expect(not diffs, 'ALG-11x', inst, where, 'the criterion the code evaluates agrees with the syntax page on all %d class assignments with an infinite / NaN chi2 or n_data == 0' % n_assign,
               '; '.join(diffs[:3]), 'nonfinite')


def make_info(repo, per_fit, shapes):
    ci = repo.cls('fit_info', 'FitInfo')
    info = Obj(ci, {})
    for k in per_fit:
        info.attrs[k] = symarr(k, shapes.get(k, (R,)))
    src = Obj(repo.cls('source.source', 'Source'), {'_valid': None, '_flux': None, '_error': None})
    Interp(repo).call(repo.func('source.source', 'Source.valid@setter'), [symarr('valid', (W,), unit=num(1))], selfv=src)     # through the real setter
    info.attrs['source'] = src
    return info


def cut_of(got, k, shapes):
    """If ``got`` is attr[:n] return n (Poly) else None."""
    if not isinstance(got, Arr) or not got.poly.is_monomial():
        return None
    (m, c), = got.poly.t.items()
    if c != 1 or len(m) != 1 or m[0][1] != 1:
        return None
    a = m[0][0]
    if a[0] != 'fn' or a[1] != 'slice' or len(a) != 7:
        return None
    b, lo, hi, st = a[3], a[4], a[5], a[6]
    if b[0] != 'B' or b[1] != R or Poly.from_key(b[2]) != sym(k, *shapes.get(k, (R,))):
        return None
    if lo != ('C', None) or st != ('C', None) or hi[0] != 'P':
        return None
    return Poly.from_key(hi[1])


def check_n_data(ctx):
    """(ALG-12) n_data counts the flags 1 and 4 the source holds when it is asked"""
    repo = ctx.repo
    # n_data: the flags are assigned through the real setter, then n_data is asked for
    ndg = repo.func('source.source', 'Source.n_data@getter')
    I = Interp(repo)
    src = Obj(repo.cls('source.source', 'Source'), {'_valid': None, '_flux': None, '_error': None})
    V = symarr('valid', (W,), unit=num(1))
    I.call(repo.func('source.source', 'Source.valid@setter'), [V], selfv=src)
    nd = I.call(ndg, [], selfv=src)
    compare(ctx, 'ALG-12', 'n_data', loc(ndg), nd, n_data_ref(), (), vocab=VOCAB, detail_ok='n_data == #(flag 1) + #(flag 4)')
    # the source keeps the caller's flag array and hands the same array back (source.valid[j] = ... edits it in place):
    # n_data has to describe the flags as they are when it is asked, not as they were when they were assigned
    exposed = src.attrs.get('_valid') is V or I.call(repo.func('source.source', 'Source.valid@getter'), [], selfv=src) is src.attrs.get('_valid')
    if exposed:
        src.attrs['_valid'] = symarr('valid2', (W,), unit=num(1))
        nd2 = I.call(ndg, [], selfv=src)
        v2 = sym('valid2', W)
        ref2 = sum_over(alg.eq(v2, 1), W) + sum_over(alg.eq(v2, 4), W)
        if isinstance(nd2, Arr) and isinstance(nd, Arr) and nd2.poly == nd.poly and not (nd2.poly == ref2):
            ctx.violation('ALG-12', 'n_data follows the flag array', loc(ndg), 'n_data is a value remembered from when the flags were assigned: after the flag array the source holds is edited in place '
                          '(source.valid[j] = 0) it still counts the old flags', 'stale-n-data')
        else:
            compare(ctx, 'ALG-12', 'n_data follows the flag array', loc(ndg), nd2, ref2, (), vocab=VOCAB | {'valid2'}, detail_ok='computed from the flags the source holds when it is asked')
    else:
        ctx.ok('ALG-12', 'n_data follows the flag array', loc(ndg), 'the source keeps a private copy of the flags and hands out copies', nontrivial=False)


def run(ctx):
    repo = ctx.repo
    keep = ctx.fn(repo.func('fit_info', 'FitInfo.keep'))
    ctx.fn(repo.func('source.source', 'Source.n_data@getter'))
    keys = state_keys(repo, repo.cls('fit_info', 'FitInfo'))
    if not keys:
        raise AnalysisError('FitInfo.__getstate__ keys not found')
    per_fit = [k for k in keys if k != 'source']
    shapes = {'model_fluxes': (R, W)}
    where = loc(keep)
    check_n_data(ctx)
    for letter in ('A', 'N', 'C', 'D', 'E', 'F'):
        I = Interp(repo, KeepHooks(False))
        I.exact_le = False          # the quantifier's thresholds avoid exact equality with an attained value: <= and < are one
        I.track_xr = True
        info = make_info(repo, per_fit, shapes)
        out = I.call(keep, [(letter, scalar(sym('number'), num(1)))], selfv=info)
        if I.lost:
            ctx.undecided('ALG-11', "selector '%s'" % letter, where, 'a call made by keep() for its effect was not modelled: %s' % (str(I.lost[0])[:120],))
            continue
        ref = reference_count(letter)
        cuts = {}
        for k in per_fit:
            cuts[k] = cut_of(info.attrs.get(k), k, shapes)
        ns = [c for c in cuts.values() if c is not None]
        if isinstance(out, Unk) and 'raises' in out.why:
            ctx.violation('ALG-11', "selector '%s'" % letter, where, 'the documented selector letter is refused (raises)', 'letter-refused')
            continue
        if not ns:
            ctx.undecided('ALG-11', "selector '%s'" % letter, where, 'no attribute is cut by a prefix slice: %r' % ({k: info.attrs.get(k) for k in per_fit[:2]},))
            continue
        n = ns[0]
        if letter == 'N':
            # x[:n] and x[:min(n, total)] are the same prefix: the count may be written either way
            iv_, tot_ = mk_fn('int', P(sym('number'))), alg.count(R)
            alt_ = iv_ + lt(tot_, iv_) * (tot_ - iv_)
            if alg.is_zero(n - alt_)[0]:
                ref = alt_
        compare(ctx, 'ALG-11', "selector '%s' count" % letter, where, Arr((), bisection_as_count(n)), ref, (), vocab=VOCAB, findings=I.findings,
                detail_ok='n_fits == %s' % alg.show(ref, 140))
        if letter in 'CDEF':
            check_nonfinite(ctx, letter, I, n, where)
        syms, _ = alg.leaf_syms(n)
        ctx.expect(syms <= {'chi2', 'valid', 'number'}, 'ALG-11', "selector '%s' reads only chi2, n_data and the threshold" % letter, where,
                   'criterion depends on %s' % sorted(syms), 'criterion depends on %s' % sorted(syms), 'criterion-inputs')
        if letter == 'F':
            for k in per_fit:
                inst = 'cut of %s' % k
                got = info.attrs.get(k)
                if cuts[k] is None:
                    if isinstance(got, Arr) and got.poly == sym(k, *shapes.get(k, (R,))):
                        ctx.violation('PERM-2', inst, where, '%s is not cut: rows no longer line up with the other per-fit arrays' % k, 'not-cut')
                    elif isinstance(got, Unk):
                        ctx.undecided('PERM-2', inst, where, repr(got))
                    else:
                        # some other selection of the ranked array: a violation when it is built from the array itself with operations whose meaning is
                        # known (a gather, a reversal, a mask); otherwise not decided
                        syms_, fns_ = alg.leaf_syms(got.poly) if isinstance(got, Arr) else (set(), {'?'})
                        if isinstance(got, Arr) and syms_ <= {k, 'chi2', 'valid', 'number'} | {x_ for x_ in syms_ if x_.startswith('idx:')} and fns_ <= {'at', 'rev', 'argsort', 'len', 'nonzero', 'first', 'last', 'slice'}:
                            ctx.violation('PERM-2', inst, where, '%s is not a prefix [:n_fits] of the ranked array: %s' % (k, alg.show(got.poly, 160)), 'not-prefix')
                        else:
                            ctx.undecided('PERM-2', inst, where, 'selection not recognised: %s' % (alg.show(got.poly, 120) if isinstance(got, Arr) else got,))
                else:
                    ctx.expect(cuts[k] == n, 'PERM-2', inst, where, '%s == %s[:n_fits] with the same n_fits as every other array' % (k, k),
                               '%s cut with a different count %s' % (k, alg.show(cuts[k], 120)), 'different-count')
    # model_fluxes absent
    I = Interp(repo, KeepHooks(False))
    I.exact_le = False          # the quantifier's thresholds avoid exact equality with an attained value: <= and < are one
    info = make_info(repo, per_fit, shapes)
    info.attrs['model_fluxes'] = None
    I.call(keep, [('C', scalar(sym('number'), num(1)))], selfv=info)
    r_ = I.call(keep, [('C', scalar(sym('number'), num(1)))], selfv=info) if False else None
    mf_, c2_ = info.attrs.get('model_fluxes'), info.attrs.get('chi2')
    if I.lost or (mf_ is None and cut_of(c2_, 'chi2', shapes) is None and not (isinstance(c2_, Arr) and c2_.poly == sym('chi2', R))):
        ctx.undecided('PERM-2', 'absent predicted fluxes', where, 'the cut of the other arrays was not recognised: %r' % (c2_,))
    else:
        ctx.expect(mf_ is None and cut_of(c2_, 'chi2', shapes) is not None, 'PERM-2', 'absent predicted fluxes', where,
                   'absent predicted fluxes stay absent; other arrays still cut', 'keep() misbehaves when predicted fluxes are absent: %r' % (mf_,), 'none-guard')
    # unknown letter raises
    I = Interp(repo, KeepHooks(False))
    I.exact_le = False          # the quantifier's thresholds avoid exact equality with an attained value: <= and < are one
    info = make_info(repo, per_fit, shapes)
    out = I.call(keep, [('Z', scalar(sym('number'), num(1)))], selfv=info)
    if not (isinstance(out, Unk) and 'raises' in out.why) and (I.lost or getattr(I, '_unknown_conds', 0) or isinstance(out, Unk)):
        ctx.undecided('ALG-11', 'unknown selector letter', where, 'not decided: %r' % (out if isinstance(out, Unk) else I.lost[:1],))
    else:
        ctx.expect(isinstance(out, Unk) and 'raises' in out.why, 'ALG-11', 'unknown selector letter', where, 'raises', 'an unknown selector letter is accepted silently', 'unknown-letter')
    # empty result keeps nothing
    I = Interp(repo, KeepHooks(True))
    I.exact_le = False          # the quantifier's thresholds avoid exact equality with an attained value: <= and < are one
    info = make_info(repo, per_fit, shapes)
    I.call(keep, [('D', scalar(sym('number'), num(1)))], selfv=info)
    n0 = cut_of(info.attrs.get('chi2'), 'chi2', shapes)
    if n0 is not None:
        n0 = alg.rebuild(n0, lambda a: Poly.const(0) if a == count_atom(R) else None)         # the value of the count when the result is empty
    ctx.expect(n0 is not None and n0.is_zero(), 'ALG-11', 'empty result', where, 'n_fits == 0 without reading chi2[0]', 'empty result handled as %s' % (alg.show(n0) if n0 is not None else info.attrs.get('chi2')), 'empty')
    ctx.exhaustive = True


FI = 'sedfitter/fit_info.py'
SO = 'sedfitter/source/source.py'
MUST_FIRE = [
    ('round 13: D located by bisection at chi2[0] + v (inf - inf is NaN and keeps nothing; the bisection keeps every infinite fit)',
     [(FI, "n_fits = np.sum(self.chi2 - self.chi2[0] <= number)", "n_fits = int(np.searchsorted(self.chi2, self.chi2[0] + number, side='right'))")]),
    ('round 13: C located by bisection from the wrong end', [(FI, "n_fits = np.sum(self.chi2 <= number)", "n_fits = len(self.chi2) - int(np.searchsorted(self.chi2, number, side='right'))")]),
    ('D rewritten as chi2 <= chi2[0] + v (keeps infinite fits when the best is infinite)', [(FI, "n_fits = np.sum(self.chi2 - self.chi2[0] <= number)", "n_fits = np.sum(self.chi2 <= self.chi2[0] + number)")]),
    ('E rewritten as chi2 <= v * n_data (keeps zero chi2 of a source without data)', [(FI, "n_fits = np.sum((self.chi2 / self.source.n_data) <= number)", "n_fits = np.sum(self.chi2 <= number * self.source.n_data)")]),
    ('n_data remembered from the assignment of the flags', [(SO, "                    self._valid = value\n", "                    self._valid = value\n                    self._n_data = np.sum((value == 1) | (value == 4))\n"),
                                                            (SO, "        return np.sum((self.valid == 1) | (self.valid == 4))", "        return self._n_data")]),
    ('D uses chi2[-1]', [(FI, "n_fits = np.sum(self.chi2 - self.chi2[0] <= number)", "n_fits = np.sum(self.chi2 - self.chi2[-1] <= number)")]),
    ('E uses len(valid)', [(FI, "n_fits = np.sum((self.chi2 / self.source.n_data) <= number)", "n_fits = np.sum((self.chi2 / len(self.source.valid)) <= number)")]),
    ('F without division', [(FI, "n_fits = np.sum((self.chi2 - self.chi2[0]) / self.source.n_data <= number)", "n_fits = np.sum((self.chi2 - self.chi2[0]) <= number)")]),
    ('C with >=', [(FI, "n_fits = np.sum(self.chi2 <= number)", "n_fits = np.sum(self.chi2 >= number)")]),
    ('cut [1:n]', [(FI, "self.av = self.av[:n_fits]", "self.av = self.av[1:n_fits]")]),
    ('model_id not cut', [(FI, "        self.model_id = self.model_id[:n_fits]\n", "")]),
    ('N -> int(number)+1', [(FI, "n_fits = int(number)", "n_fits = int(number) + 1")]),
    ('sc cut by n_fits-1', [(FI, "self.sc = self.sc[:n_fits]", "self.sc = self.sc[:n_fits - 1]")]),
    ('E and F swapped', [(FI, "elif form == 'E':", "elif form == 'F' and False or form == 'E' and False:")]) if False else
    ('F divides by n_wav', [(FI, "n_fits = np.sum((self.chi2 - self.chi2[0]) / self.source.n_data <= number)", "n_fits = np.sum((self.chi2 - self.chi2[0]) / self.source.n_wav <= number)")]),
    ('D is absolute', [(FI, "n_fits = np.sum(self.chi2 - self.chi2[0] <= number)", "n_fits = np.sum(self.chi2 <= number)")]),
    ('unknown letter falls back to all', [(FI, '            raise Exception("Unknown format: %s" % form)', "            n_fits = len(self.chi2)")]),
    ('n_data counts limits', [(SO, "return np.sum((self.valid == 1) | (self.valid == 4))", "return np.sum(self.valid > 0)")]),
    ('A keeps all but one', [(FI, "            n_fits = len(self.chi2)\n        elif form == 'N'", "            n_fits = len(self.chi2) - 1\n        elif form == 'N'")]),
    ('names cut from the tail', [(FI, "self.model_name = self.model_name[:n_fits]", "self.model_name = self.model_name[-n_fits:]")]),
    ('E multiplies', [(FI, "n_fits = np.sum((self.chi2 / self.source.n_data) <= number)", "n_fits = np.sum((self.chi2 * self.source.n_data) <= number)")]),
]
MUST_SILENT = [
    ('round 13: C located by bisection in the ranked chi2', [(FI, "n_fits = np.sum(self.chi2 <= number)", "n_fits = int(np.searchsorted(self.chi2, number, side='right'))")]),
    ('round 12: the count of kept fits made a python int', [('sedfitter/fit_info.py', 'n_fits = np.sum(self.chi2 <= number)', 'n_fits = int(np.sum(number >= self.chi2))')]),
    ('comparison flipped', [(FI, "n_fits = np.sum(self.chi2 <= number)", "n_fits = np.sum(number >= self.chi2)")]),
    ('temporary for delta', [(FI, "n_fits = np.sum(self.chi2 - self.chi2[0] <= number)", "delta = self.chi2 - self.chi2[0]\n            n_fits = np.sum(delta <= number)")]),
    ('strict comparison', [(FI, "n_fits = np.sum((self.chi2 / self.source.n_data) <= number)", "n_fits = np.sum((self.chi2 / self.source.n_data) < number)")]),
    ('method sum', [(FI, "n_fits = np.sum((self.chi2 - self.chi2[0]) / self.source.n_data <= number)", "n_fits = ((self.chi2 - self.chi2[0]) / self.source.n_data <= number).sum()")]),
    ('explicit zero lower bound', [(FI, "self.sc = self.sc[:n_fits]", "self.sc = self.sc[0:n_fits]")]),
    ('cuts reordered', [(FI, "        self.av = self.av[:n_fits]\n        self.sc = self.sc[:n_fits]\n", "        self.sc = self.sc[:n_fits]\n        self.av = self.av[:n_fits]\n")]),
]


def thorough(ctx):
    from .. import selftest
    selftest.run(ctx, MUST_FIRE, MUST_SILENT)
