import numpy as np, glob

from t3helpers import *
from sedfitter import plot
d, c = make_v2(apdep=True)
fitter = quiet(Fitter, [3.*u.micron, 10.*u.micron, 30.*u.micron], [3.,5.,5.]*u.arcsec, d, extinction_law=ext, av_range=[0.,10.], distance_range=[1.,2.]*u.kpc, use_memmap=False)
s = Source.from_ascii('src 0 0 1 1 1 1.5 0.1 1.4 0.1 1.6 0.2')
print('wavelengths', fitter.models.wavelengths, 'ndist', fitter.models.n_distances)
for st in ['interp','largest','largest+smallest','all']:
    tryit('plot v2 multi-ap '+st, lambda: {k:len(v['lines'].get_segments()) for k,v in plot(fitter.fit(s), select_format=('N',2), sed_type=st).items()})
info = fitter.fit(s)
figs = plot(fitter.fit(s), select_format=('N',2), sed_type='interp')
segs = figs['src']['lines'].get_segments()
wavs = np.array([f['wav'].to(u.micron).value for f in info.meta.filters])
for k,seg in enumerate(segs):
    fit_i = len(segs)-1-k
    pred = 10.**(info.model_fluxes[fit_i] - 26. + np.log10(3.e8/(wavs*1e-6)))
    # curve value at nearest tabulated wavelength
    vals=[]
    for w in wavs:
        j = np.argmin(np.abs(seg[:,0]-w)); vals.append((seg[j,0], seg[j,1]))
    print('fit',fit_i,'curve',vals,'pred',pred, 'model wav used', c.wav.value[[np.argmin(np.abs(c.wav.value-w)) for w in wavs]])
