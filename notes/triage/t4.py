import numpy as np, glob

from t3helpers import *
from sedfitter import write_parameters, write_parameter_ranges, extract_parameters, filter_output, fit, plot
from sedfitter.fit_info import FitInfoFile

# D8 monochromatic chunking
def mono(nwav, max_ram, **kw):
    d = make_v1(nm=2, nwav=nwav, nap=1)
    t = quiet(convolve_model_dir_monochromatic, d, max_ram=max_ram, **kw)
    return sorted(os.path.basename(x) for x in glob.glob(d+'/convolved/*'))
per = 4.*2.*2*1/1024.**3   # bytes per wavelength for 2 models, 1 ap -> chunk_size = floor(max_ram/per)
tryit('D8 all in one', lambda: mono(5, 8))
for cs in [1,2,3,4]:
    tryit('D8 chunk %d'%cs, lambda: mono(5, per*cs*1.0001))
tryit('D8 window single', lambda: mono(5, 8, wav_min=3.0*u.micron, wav_max=3.3*u.micron))
tryit('D8 window two', lambda: mono(5, 8, wav_min=1.5*u.micron, wav_max=3.3*u.micron))
print(np.logspace(1,0,5))

# D9 extract_parameters with permuted parameter file (v1 package has reversed table)
d = make_v1(nm=4, nwav=30, nap=1)
quiet(convolve_model_dir, d, [filt('f1',2,4), filt('f2',5,7), filt('f3',8,9.5)])
fitter = quiet(Fitter, ['f1','f2','f3'], [3.,3.,3.]*u.arcsec, d, extinction_law=ext, av_range=[0.,10.], distance_range=[1.,2.]*u.kpc)
s = Source.from_ascii('src 0 0 1 1 1 1.5 0.1 1.4 0.1 1.6 0.2')
info = fitter.fit(s)
import copy
tryit('D9 write_parameters', lambda: write_parameters(fitter.fit(s), d+'/wp.txt', select_format=('A',0)))
print(open(d+'/wp.txt').read())
os.chdir(d)
tryit('D9 extract_parameters', lambda: extract_parameters(fitter.fit(s), 'ex_', select_format=('A',0)))
# fit() file + read back + truncation behaviour
open(d+'/data','w').write('s1 0 0 1 1 1 1.5 0.1 1.4 0.1 1.6 0.2\ns2 0 0 1 0 0 1.5 0.1 1.4 0.1 1.6 0.2\ns3 0 0 1 1 1 2.5 0.1 1.4 0.1 1.6 0.2\n')
quiet(fit, d+'/data', ['f1','f2','f3'], [3.,3.,3.]*u.arcsec, d, d+'/out', extinction_law=ext, av_range=[0.,10.], distance_range=[1.,2.]*u.kpc, output_format=('A',0), n_data_min=3)
recs = list(FitInfoFile(d+'/out','r')); print('records', [r.source.name for r in recs])
raw = open(d+'/out','rb').read(); res = {}
for k in range(len(raw)):
    open(d+'/tr','wb').write(raw[:k])
    try:
        n = len(list(FitInfoFile(d+'/tr','r'))); res.setdefault('n=%d'%n,0); res['n=%d'%n]+=1
    except Exception as e:
        res.setdefault(type(e).__name__,0); res[type(e).__name__]+=1
print('C19 truncation outcomes', res, 'len', len(raw))
tryit('filter_output', lambda: filter_output(d+'/out', chi=5.))
print([ (f, [r.source.name for r in FitInfoFile(d+'/'+f,'r')]) for f in ['out_good','out_bad'] if os.path.getsize(d+'/'+f)>0], [os.path.getsize(d+'/'+f) for f in ['out_good','out_bad']])
# plot with objects, v1
for st in ['interp','largest','largest+smallest','all']:
    tryit('plot v1 '+st, lambda: {k:len(v['lines'].get_segments()) for k,v in plot(fitter.fit(s), select_format=('N',2), sed_type=st).items()})
