import numpy as np, glob

from t3helpers import *
# C20
for n in range(0,4):
    for ncols in range(0, 3*n+7):
        cols = ['nm','1.0','2.0'] + ['1']*n + ['%d.5'%k for k in range(2*n)]
        cols = (cols + ['7']*20)[:ncols]
        line = ' '.join(cols)
        try:
            s = Source.from_ascii(line); r = 'OK n_wav=%s'%s.n_wav
        except Exception as e:
            r = type(e).__name__
        fits_layout = (ncols>=3 and (ncols-3)%3==0)
        if (r.startswith('OK')) != fits_layout or ncols<3:
            print('n',n,'ncols',ncols,'->',r, 'fits layout', fits_layout)
tryit('flags 5', lambda: Source.from_ascii('a 0 0 5 1. 1.'))
tryit('flags 1.5', lambda: Source.from_ascii('a 0 0 1.5 1. 1.'))
tryit('flags -1', lambda: Source.from_ascii('a 0 0 -1 1. 1.'))
tryit('flags 9', lambda: Source.from_ascii('a 0 0 9 1. 1.').valid)
s = Source.from_ascii('averyveryveryveryveryveryverylongname_40chr 1.5 -2.5 1 4 9 1.234e-30 -999 5.5e29 1 -9.999e+02 -9.999e+02')
print(repr(s.to_ascii())); s2 = Source.from_ascii(s.to_ascii()); print(s2.name, s2.valid, s2.flux, s2.error)
# C13 SED.interpolate with bare numbers / quantity
from sedfitter.sed import SED
sd = SED(); sd.name='x'; sd.distance=1*u.kpc; sd.wav=[3.,2.,1.]*u.micron; sd.nu = sd.wav.to(u.Hz, equivalencies=u.spectral())
sd.apertures=[10.,100.,1000.]*u.au; sd.flux = np.arange(9.).reshape(3,3)*u.mJy; sd.error=sd.flux*0.1
tryit('SED.interpolate bare', lambda: sd.interpolate(np.array([10., 55., 5000.])))
tryit('SED.interpolate quantity', lambda: sd.interpolate(np.array([10., 55., 5000.])*u.au))
tryit('SED.interpolate small', lambda: sd.interpolate(np.array([1.])))
tryit('SED.interpolate_variable', lambda: sd.interpolate_variable(np.array([1.,2.,3.]), np.array([10., 55., 5000.])))
cf = ConvolvedFluxes(wavelength=1*u.micron, model_names=np.array(['a','b']), apertures=[10.,100.,1000.]*u.au, flux=np.arange(6.).reshape(2,3)*u.mJy, error=np.arange(6.).reshape(2,3)*0.1*u.mJy)
tryit('CF.interpolate', lambda: (lambda r:(r.flux, r.apertures))(cf.interpolate(np.array([10., 55., 5000.])*u.au)))
tryit('CF.interpolate pc', lambda: cf.interpolate(np.array([10., 55., 5000.])*u.au.to(u.pc)*u.pc).flux)
tryit('CF.interpolate small', lambda: cf.interpolate([1.]*u.au))
# C15 convert_flux pairs
from sedfitter.sed.helpers import convert_flux
nu = np.array([1e13,2e13])*u.Hz; dist = 2*u.kpc
units = [u.mJy,u.Jy,u.erg/u.cm**2/u.s,u.erg/u.s,u.W/u.m**2]
bad=0
for a in units:
    f = np.ones((1,2))*a
    for b in units:
        try:
            g = convert_flux(nu,f,b,distance=dist); h = convert_flux(nu,g,a,distance=dist)
            if not np.allclose(h.value,f.value): bad+=1; print('rt fail',a,b)
        except Exception as e:
            bad+=1; print('exc',a,b,type(e).__name__,e)
print('convert_flux bad', bad)
tryit('convert_flux unsupported', lambda: convert_flux(nu, np.ones((1,2))*u.m, u.mJy, distance=dist))
tryit('convert_flux unsupported target', lambda: convert_flux(nu, np.ones((1,2))*u.mJy, u.m, distance=dist))
