import numpy as np, warnings, os, tempfile, io, contextlib
warnings.simplefilter('ignore')
from astropy import units as u
from astropy.table import Table
from sedfitter.sed import SED, SEDCube
from sedfitter.filter import Filter
from sedfitter.convolve import convolve_model_dir, convolve_model_dir_monochromatic
from sedfitter.convolved_fluxes import ConvolvedFluxes
from sedfitter.extinction import Extinction
from sedfitter import Fitter
from sedfitter.source import Source
from sedfitter.fit_info import FitInfoFile

def tryit(label, fn):
    try:
        r = fn(); print(label, 'OK', r if r is not None else '')
    except Exception as e:
        print(label, 'EXC', type(e).__name__, str(e)[:150])

rng = np.random.default_rng(1)
def quiet(fn,*a,**k):
    with contextlib.redirect_stdout(io.StringIO()):
        return fn(*a,**k)

def make_v2(apdep=False, nm=4):
    d = tempfile.mkdtemp()
    c = SEDCube(); c.names = np.array(['m%02d'%i for i in range(nm)]); c.distance = 1*u.kpc
    c.wav = np.logspace(2,0,30)*u.micron   # decreasing wav = increasing nu
    nap = 3 if apdep else 1
    if apdep: c.apertures = [100.,1000.,10000.]*u.au
    c.val = (1+rng.random((nm,nap,30)))*u.mJy
    c.unc = c.val*0.5*rng.random(c.val.shape)
    c.write(os.path.join(d,'flux.fits'))
    open(os.path.join(d,'models.conf'),'w').write("name = t\nlength_subdir = 0\naperture_dependent = %s\nlogd_step = 0.02\nversion = 2\n"%('yes' if apdep else 'no'))
    t = Table(); t['MODEL_NAME']=np.array(c.names,dtype='S'); t['par1']=np.arange(nm)*1.
    t.write(os.path.join(d,'parameters.fits'))
    return d, c

def make_v1(nm=4, nwav=5, nap=1):
    d = tempfile.mkdtemp(); os.mkdir(os.path.join(d,'seds'))
    names=[]
    for i in range(nm):
        s = SED(); s.name='m%02d'%i; s.distance=1*u.kpc
        s.wav = np.logspace(1,0,nwav)*u.micron; s.nu = s.wav.to(u.Hz,equivalencies=u.spectral())
        if nap>1: s.apertures = np.logspace(2,4,nap)*u.au
        s.flux = (1+rng.random((nap,nwav)))*u.mJy; s.error = s.flux*0.1
        s.write(os.path.join(d,'seds',s.name+'_sed.fits')); names.append(s.name)
    open(os.path.join(d,'models.conf'),'w').write("name = t\nlength_subdir = 0\naperture_dependent = %s\nlogd_step = 0.02\n"%('yes' if nap>1 else 'no'))
    t = Table(); t['MODEL_NAME']=np.array(names,dtype='S30'); t['par1']=np.arange(nm)*1.
    t = t[::-1]
    t.write(os.path.join(d,'parameters.fits'))
    return d

def filt(name, lo, hi):
    f = Filter(); f.name=name; f.central_wavelength = np.sqrt(lo*hi)*u.micron
    w = np.linspace(hi, lo, 20)*u.micron
    f.nu = w.to(u.Hz,equivalencies=u.spectral()); f.response = np.exp(-((np.arange(20)-10)/4.)**2); f.normalize(); return f

ext = Extinction(); ext.wav = np.logspace(-2,3,50)*u.micron; ext.chi = ext.wav.value**-1.5*u.cm**2/u.g

# D5
d, c = make_v2()
quiet(convolve_model_dir, d, [filt('f1',2,4), filt('f2',8,12), filt('f3',20,30)], memmap=False)
cf = ConvolvedFluxes.read(os.path.join(d,'convolved','f1.fits'))
fb = filt('f1',2,4).rebin(c.nu)
exp_err = np.sqrt(np.sum((c.unc[:,0,:].value*fb.response)**2,axis=1))
exp_flux = np.sum(c.val[:,0,:].value*fb.response,axis=1)
print('D5 flux ok', np.allclose(cf.flux[:,0].value, exp_flux), 'error ok', np.allclose(cf.error[:,0].value, exp_err), cf.error[:,0].value[:2], exp_err[:2])

fitter = quiet(Fitter, ['f1','f2','f3'], [3.,3.,3.]*u.arcsec, d, extinction_law=ext, av_range=[0.,10.], distance_range=[1.,2.]*u.kpc, use_memmap=False)
s = Source.from_ascii('src 0 0 1 1 1 1.5 0.1 1.4 0.1 1.6 0.2')
info = fitter.fit(s)
print('fit chi2', info.chi2, 'av', info.av, 'sc', info.sc, type(info.av))
# flag 9 with negative flux
s9 = Source.from_ascii('src 0 0 1 1 9 1.5 0.1 1.4 0.1 -999. -999.')
s0 = Source.from_ascii('src 0 0 1 1 0 1.5 0.1 1.4 0.1 -999. -999.')
s9p = Source.from_ascii('src 0 0 1 1 9 1.5 0.1 1.4 0.1 7. 1.')
i9 = fitter.fit(s9); i0 = fitter.fit(s0); i9p = fitter.fit(s9p)
print('flag9 neg chi2', i9.chi2, ' flag0', i0.chi2, ' flag9 pos', i9p.chi2)
# D4 in-place keep on caller's object
from sedfitter import write_parameters, write_parameter_ranges, extract_parameters, filter_output
info = fitter.fit(s); n0 = info.n_fits
tryit('D1 write_parameters(info)', lambda: write_parameters(info, os.path.join(d,'wp.txt'), select_format=('N',1)))
print('D4 n_fits before', n0, 'after', info.n_fits)
# D3 list
tryit('D3 FitInfoFile(list)', lambda: FitInfoFile([fitter.fit(s), fitter.fit(s0)], 'r'))
