import numpy as np, warnings, os, tempfile, traceback
warnings.simplefilter('ignore')
from astropy import units as u
from sedfitter.sed import SED, SEDCube

def tryit(label, fn):
    try:
        r = fn(); print(label, 'OK', r if r is not None else '')
    except Exception as e:
        print(label, 'EXC', type(e).__name__, str(e)[:120])

d = tempfile.mkdtemp()
# D7: SED.write with increasing wavelength (decreasing nu), mJy so unit parse ok
def sed_rt(wav, order):
    s = SED(); s.name='m'; s.distance=1*u.kpc
    s.wav = wav*u.micron; s.nu = s.wav.to(u.Hz, equivalencies=u.spectral())
    s.apertures = [1.,2.]*u.au
    s.flux = np.arange(2*len(wav)).reshape(2,len(wav))*1.*u.mJy
    s.error = s.flux*0.1
    fn = os.path.join(d, 'x.fits'); s.write(fn, overwrite=True)
    r = SED.read(fn, unit_flux=u.mJy, order=order)
    # compare cell values by wavelength
    m1 = {round(w,6):tuple(s.flux[:,i].value) for i,w in enumerate(s.wav.value)}
    m2 = {round(w,6):tuple(r.flux[:,i].value) for i,w in enumerate(r.wav.value)}
    return m1==m2
tryit('D7 SED rt wav increasing, read nu', lambda: sed_rt(np.array([1.,2.,4.]), 'nu'))
tryit('D7 SED rt wav increasing, read wav', lambda: sed_rt(np.array([1.,2.,4.]), 'wav'))
tryit('   SED rt wav decreasing, read nu', lambda: sed_rt(np.array([4.,2.,1.]), 'nu'))
tryit('   SED rt wav decreasing, read wav', lambda: sed_rt(np.array([4.,2.,1.]), 'wav'))

# D2: erg/cm2/s flux
def sed_rt_unit(unit):
    s = SED(); s.name='m'; s.distance=1*u.kpc
    s.wav = np.array([4.,2.,1.])*u.micron; s.nu = s.wav.to(u.Hz, equivalencies=u.spectral())
    s.apertures = [1.,2.]*u.au
    s.flux = np.ones((2,3))*unit; s.error = s.flux*0.1
    fn = os.path.join(d, 'y.fits'); s.write(fn, overwrite=True)
    r = SED.read(fn, unit_flux=unit); return str(r.flux.unit)
for unit in [u.mJy, u.Jy, u.erg/u.cm**2/u.s, u.erg/u.s]:
    tryit('D2 unit %s'%unit, lambda: sed_rt_unit(unit))

# D6: cube reversal
def cube_rt(wav, order, with_unc=True, nap=2):
    c = SEDCube(); c.names = np.array(['a','b','c']); c.distance = 1*u.kpc
    c.wav = wav*u.micron
    c.apertures = np.arange(1,nap+1)*1.*u.au
    c.val = np.arange(3*nap*len(wav)).reshape(3,nap,len(wav))*1.*u.mJy
    if with_unc: c.unc = c.val*0.1
    fn = os.path.join(d,'c.fits'); c.write(fn, overwrite=True)
    r = SEDCube.read(fn, order=order, memmap=False)
    ok = True
    for i,w in enumerate(c.wav.value):
        j = list(np.round(r.wav.value,6)).index(round(w,6))
        ok &= np.array_equal(c.val[:,:,i].value, r.val[:,:,j].value)
    return ok
tryit('D6 cube wav inc read nu', lambda: cube_rt(np.array([1.,2.,4.]), 'nu'))
tryit('D6 cube wav inc read wav', lambda: cube_rt(np.array([1.,2.,4.]), 'wav'))
tryit('D6 cube wav dec read nu', lambda: cube_rt(np.array([4.,2.,1.]), 'nu'))
tryit('D6 cube wav dec read wav', lambda: cube_rt(np.array([4.,2.,1.]), 'wav'))
tryit('D6b cube wav inc read nu no unc', lambda: cube_rt(np.array([1.,2.,4.]), 'nu', with_unc=False))
tryit('D6 cube nap=3 nwav=3 wav inc read nu', lambda: cube_rt(np.array([1.,2.,4.]), 'nu', nap=3))
# D10 get_sed without unc
def gs():
    c = SEDCube(); c.names = np.array(['a','b']); c.distance=1*u.kpc; c.wav=[1.,2.]*u.micron
    c.val = np.ones((2,1,2))*u.mJy
    return c.get_sed('a').flux.shape
tryit('D10 get_sed no unc', gs)
