import numpy as np, warnings
warnings.simplefilter('ignore')
from astropy import units as u
from sedfitter.utils.integrate import integrate_subset, integrate
from sedfitter.filter import Filter

# D16: integrate_subset with xmax == x[-1]
x = np.array([0.,1.,2.,3.]); y = np.array([0.,1.,0.,1.])
print('D16 full integral true=1.5 got', integrate_subset(x, y.copy(), 0., 3.), ' [0.5,3]:', integrate_subset(x,y.copy(),0.5,3.), 'true', 1.5-0.125)
print('    [0,2.5] got', integrate_subset(x,y.copy(),0.,2.5), 'true', 1.0+0.125)

# D15: rebin with filter in decreasing frequency
f = Filter()
f.name='a'; f.central_wavelength = 1*u.micron
nu = np.linspace(1e14, 2e14, 11)
resp = np.exp(-((nu-1.5e14)/2e13)**2)
f.nu = nu*u.Hz; f.response = resp.copy()
sed_nu = np.linspace(5e13, 3e14, 40)*u.Hz
r_inc = f.rebin(sed_nu).response
f2 = Filter(); f2.name='a'; f2.central_wavelength=1*u.micron
f2.nu = nu[::-1]*u.Hz; f2.response = resp[::-1].copy()
r_dec = f2.rebin(sed_nu).response
print('D15 sum inc', r_inc.sum(), 'sum dec', r_dec.sum(), 'true', integrate(nu, resp.copy()))
# sed grid decreasing
r_inc_rev = f.rebin(sed_nu[::-1]).response
print('   sed reversed sum', r_inc_rev.sum(), np.allclose(r_inc_rev[::-1], r_inc))
