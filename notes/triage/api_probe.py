import ast, sys, os, importlib, warnings, collections
warnings.simplefilter('ignore')
root='/repo/sedfitter'
unres=[]; total=0; per_root=collections.Counter()
for dp, dn, fn in os.walk(root):
    if 'tests' in dp: continue
    for f in fn:
        if not f.endswith('.py'): continue
        p=os.path.join(dp,f); tree=ast.parse(open(p).read())
        alias={}
        for n in ast.walk(tree):
            if isinstance(n, ast.Import):
                for a in n.names:
                    alias[(a.asname or a.name).split('.')[0]] = a.name if a.asname else a.name.split('.')[0]
            elif isinstance(n, ast.ImportFrom) and n.level==0 and n.module:
                for a in n.names:
                    alias[a.asname or a.name] = n.module+'.'+a.name
        class V(ast.NodeVisitor):
            def visit_Attribute(self, n):
                chain=[]; x=n
                while isinstance(x, ast.Attribute): chain.append(x.attr); x=x.value
                if isinstance(x, ast.Name) and x.id in alias and alias[x.id].split('.')[0] in ('numpy','scipy','astropy','matplotlib'):
                    chain=chain[::-1]; full=alias[x.id]
                    parts=full.split('.')
                    try:
                        obj=importlib.import_module(parts[0])
                        for q in parts[1:]:
                            try: obj=getattr(obj,q)
                            except AttributeError: obj=importlib.import_module(obj.__name__+'.'+q)
                    except Exception as e:
                        unres.append((p,n.lineno,full,'import',str(e))); return
                    global total
                    okchain=[]
                    for c in chain:
                        if isinstance(obj, type(os)) or isinstance(obj,type):
                            if not hasattr(obj,c):
                                unres.append((p,n.lineno,full+'.'+'.'.join(chain),c)); break
                            obj=getattr(obj,c); okchain.append(c)
                        else: break
                    total+=1; per_root[parts[0]]+=1
                else:
                    self.generic_visit(n)
        V().visit(tree)
        # from-imports themselves
        for n in ast.walk(tree):
            if isinstance(n, ast.ImportFrom) and n.level==0 and n.module and n.module.split('.')[0] in ('numpy','scipy','astropy','matplotlib'):
                try:
                    m=importlib.import_module(n.module)
                    for a in n.names:
                        if not hasattr(m,a.name):
                            try: importlib.import_module(n.module+'.'+a.name)
                            except Exception: unres.append((p,n.lineno,n.module+'.'+a.name,'from-import'))
                except Exception as e: unres.append((p,n.lineno,n.module,'import',str(e)))
print('chains',total,dict(per_root)); 
for u in unres: print('UNRESOLVED',u)
