import numpy as np, warnings
warnings.simplefilter('ignore')
from astropy import units as u
from sedfitter.sed import SED
sd = SED(); sd.name='x'; sd.distance=1*u.kpc; sd.wav=[3.,2.,1.]*u.micron; sd.nu = sd.wav.to(u.Hz, equivalencies=u.spectral())
sd.apertures=[10.,100.,1000.]*u.au; sd.flux = np.arange(9.).reshape(3,3)*u.mJy; sd.error=sd.flux*0.1
print(sd.interpolate(np.array([10., 55., 500.])*u.au))
try:
    print(sd.interpolate((np.array([10., 55., 500.])*u.au).to(u.pc)))
except Exception as e: print('EXC', type(e).__name__, e)
