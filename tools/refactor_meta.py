#!/usr/bin/env python3
"""Refresh seeded/refactors/*/meta.json from the output of tools/refactor_probe.sh (lines '<Cnn-Rk>: <Check> UNDECIDED|VIOLATION ...')."""
import json, re, sys, os, glob
summ = open(sys.argv[1]).read().splitlines()
und, vio = {}, {}
for l in summ:
    m = re.match(r'(?:(refactors\w*) )?(C\d\d-R\d): (C\d\d) (UNDECIDED|VIOLATION)\s+(.*)', l)
    if m:
        (und if m.group(4) == 'UNDECIDED' else vio).setdefault((m.group(1) or 'refactors', m.group(2)), []).append((m.group(3), m.group(5)[:200]))
n_ok = 0
for mf in sorted(glob.glob('/verif/seeded/refactors*/C*/meta.json')):
    meta = json.load(open(mf))
    p = meta['property']
    rset = os.path.basename(os.path.dirname(os.path.dirname(mf)))
    for r, d in meta['refactors'].items():
        u, v = und.get((rset, '%s-%s' % (p, r)), []), vio.get((rset, '%s-%s' % (p, r)), [])
        d['checks_reporting_violation'] = sorted({c for c, _ in v})
        d['checks_left_undecided'] = sorted({c for c, _ in u})
        d['undecided_detail'] = [' '.join(x) for x in u]
        n_ok += not u and not v
    json.dump(meta, open(mf, 'w'), indent=1)
print('%d refactors decided OK by all 20 checks' % n_ok)
