#!/venv/bin/python
"""Print the markdown table of section 12.16 of DESIGN.md from the evidence files of the last run of every check (obligations, rule instances)."""
import json, glob, os
HERE = os.path.dirname(os.path.dirname(os.path.abspath(__file__)))
print('| id | tier | obligations | discharged | undecided | rule instances |\n|---|---|---|---|---|---|')
for f in sorted(glob.glob(os.path.join(HERE, 'evidence', 'C*.json'))):
    d = json.load(open(f))
    c = d['coverage']
    print('| %s | %s | %d | %d | %d | %s |' % (d['property_id'], d['tier'], c['obligations'], c['discharged'], c['undecided'],
                                            ', '.join('%s %s' % (k, v['found'] if isinstance(v, dict) else v) for k, v in sorted(c.get('rule_instance_counts', {}).items()))))
