#!/venv/bin/python
"""Run every check against every seeded change under /verif/seeded (scratch export + patch; /repo untouched),
update each meta.json with the verdicts and write seeded/MATRIX.md."""
import json, os, subprocess, sys, re
from concurrent.futures import ThreadPoolExecutor
HERE = os.path.dirname(os.path.dirname(os.path.abspath(__file__)))
SEED = os.path.join(HERE, 'seeded')


def one(sid):
    d = os.path.join(SEED, sid)
    r = subprocess.run(['/venv/bin/python', os.path.join(HERE, 'tools', 'seedcheck.py'), os.path.join(d, 'patch.diff')], capture_output=True, text=True, timeout=3000)
    fired, undec = [], []
    detail = {}
    for line in r.stdout.splitlines():
        m = re.match(r'^(C\d\d) (VIOLATION|UNDECIDED)\s+(.*)', line)
        if m:
            (fired if m.group(2) == 'VIOLATION' else undec).append(m.group(1))
            detail[m.group(1)] = m.group(3)[:300]
    return sid, fired, undec, detail


def main():
    ids = sorted(x for x in os.listdir(SEED) if os.path.isdir(os.path.join(SEED, x)) and os.path.exists(os.path.join(SEED, x, 'meta.json')) and os.path.exists(os.path.join(SEED, x, 'patch.diff')))
    with ThreadPoolExecutor(8) as ex:
        res = list(ex.map(one, ids))
    rows = []
    for sid, fired, undec, detail in res:
        mp = os.path.join(SEED, sid, 'meta.json')
        meta = json.load(open(mp))
        meta['checks_that_report_a_violation'] = fired
        meta['checks_left_undecided'] = [u for u in undec if u not in fired]
        meta['first_report'] = {k: v for k, v in detail.items() if k in fired}
        json.dump(meta, open(mp, 'w'), indent=1)
        rows.append((sid, meta['breaks_property'], fired, meta['checks_left_undecided'], meta.get('needs', '')[:110]))
    with open(os.path.join(SEED, 'MATRIX.md'), 'w') as fh:
        fh.write('| seeded change | breaks | checks reporting VIOLATION | undecided only | needs, to manifest |\n|---|---|---|---|---|\n')
        for sid, p, fired, und, needs in rows:
            fh.write('| %s | %s | %s | %s | %s |\n' % (sid, p, ' '.join(fired) or '**none**', ' '.join(und), needs.replace('|', '/')))
        det = sum(1 for r in rows if r[2])
        own = sum(1 for r in rows if r[1] in r[2])
        fh.write('\n%d of %d seeded changes are reported as VIOLATION by at least one check; %d by the check of the property they were written against.\n' % (det, len(rows), own))
    print(open(os.path.join(SEED, 'MATRIX.md')).read())


if __name__ == '__main__':
    main()
