#!/venv/bin/python
"""Systematic small-slip mutants of the anchored source files, run through all 20 quick checks (nothing in /repo is touched).

Every mutant is one realistic one-token slip (comparison, arithmetic operator, index, constant, and/or, swapped arguments, sibling attribute, axis, dropped
statement) applied to a scratch export of /repo HEAD.  The checks are run in-process on the scratch tree; a mutant *survives* when no check reports a
VIOLATION.  Survivors are then run against the pinned test suite (a mutant the suite kills is out of scope) and listed for triage: each is either an
equivalent mutant / code no property speaks about, or a gap of the checks.

usage: mutants.py generate <out.json> [--files f1,f2] [--max N] [--seed S]
       mutants.py run <in.json> <out.json> [--jobs 14] [--props C01,C02]
       mutants.py suite <run.json> <out.json> [--jobs 12]       (survivors only)
       mutants.py show <run.json>
"""
import ast, copy, json, os, random, shutil, subprocess, sys, tempfile, multiprocessing

HERE = os.path.dirname(os.path.dirname(os.path.abspath(__file__)))
sys.path.insert(0, os.environ.get('MUT_SEDLINT_SNAPSHOT') or HERE)          # a frozen copy of the checker, so that it can be worked on while a sweep runs
SCRATCH = '/root/scratch' if os.path.isdir('/root/scratch') else tempfile.gettempdir()

SIBLINGS = [('flux', 'error'), ('wav', 'nu'), ('av', 'sc'), ('min', 'max'), ('n_wav', 'n_data'), ('n_ap', 'n_wav'), ('val', 'unc'), ('av_min', 'av_max'), ('x', 'y'),
            ('model_id', 'model_name'), ('jmin', 'jlo'), ('jmax', 'jhi'), ('first', 'last'), ('xmin', 'xmax'), ('ymin', 'ymax'), ('argmin', 'argmax'),
            ('nanmin', 'nanmax'), ('floor', 'ceil'), ('sum', 'nansum'), ('any', 'all'), ('log10', 'log'), ('wav_min', 'wav_max'), ('distance', 'apertures')]
SIB = {}
for a_, b_ in SIBLINGS:
    SIB[a_] = b_; SIB[b_] = a_

CMP = {ast.Lt: [ast.LtE, ast.Gt], ast.LtE: [ast.Lt], ast.Gt: [ast.GtE, ast.Lt], ast.GtE: [ast.Gt], ast.Eq: [ast.NotEq], ast.NotEq: [ast.Eq], ast.Is: [ast.IsNot], ast.IsNot: [ast.Is]}
BIN = {ast.Add: [ast.Sub], ast.Sub: [ast.Add], ast.Mult: [ast.Div], ast.Div: [ast.Mult], ast.BitAnd: [ast.BitOr], ast.BitOr: [ast.BitAnd]}
NOISE_CALLS = ('log.', 'logger.', 'warnings.', 'print', 'ProgressBar', 'b.update', 'plt.', 'fig.', 'ax.', 'mpl.', 'os.path.', 'os.mkdir', 'glob.')


def files_default():
    out = []
    for l in open(os.path.join(HERE, 'properties.jsonl')):
        for f in json.loads(l)['anchors']['files']:
            if f not in out:
                out.append(f)
    return sorted(out)


def _noise(node):
    """statements no property speaks about: diagnostics, messages, figure cosmetics"""
    if isinstance(node, ast.Raise):
        return True
    if isinstance(node, ast.Expr) and isinstance(node.value, ast.Constant):
        return True
    if isinstance(node, (ast.Expr, ast.Assign)) and isinstance(node.value, ast.Call):
        try:
            t = ast.unparse(node.value.func)
        except Exception:
            t = ''
        if any(t.startswith(p) for p in NOISE_CALLS):
            return True
    return False


def sites(tree):
    """yield (path, kind, k) : path = list of (field, index) steps from the module to the node; k = which alternative"""
    out = []

    def walk(node, path, in_fn):
        if _noise(node):
            return
        if isinstance(node, (ast.Import, ast.ImportFrom)):
            return
        if isinstance(node, ast.Assign) and any(isinstance(t, ast.Name) and t.id == '__all__' for t in node.targets):
            return
        fn = in_fn or isinstance(node, (ast.FunctionDef, ast.AsyncFunctionDef))
        if fn:
            if isinstance(node, ast.Compare) and len(node.ops) == 1 and type(node.ops[0]) in CMP:
                for k in range(len(CMP[type(node.ops[0])])):
                    out.append((path, 'cmp', k))
            if isinstance(node, ast.BinOp) and type(node.op) in BIN and not isinstance(node.left, ast.Constant) | isinstance(node.right, ast.Constant) & isinstance(node.op, ast.Mod):
                if not (isinstance(node.left, ast.Constant) and isinstance(node.left.value, str)):
                    out.append((path, 'bin', 0))
            if isinstance(node, ast.BoolOp):
                out.append((path, 'bool', 0))
            if isinstance(node, ast.UnaryOp) and isinstance(node.op, (ast.Not, ast.USub, ast.Invert)):
                out.append((path, 'unary', 0))
            if isinstance(node, ast.Constant) and isinstance(node.value, (int, float)) and not isinstance(node.value, bool):
                out.append((path, 'const', 0))
                if isinstance(node.value, int) and abs(node.value) <= 3:
                    out.append((path, 'const', 1))
            if isinstance(node, ast.Constant) and isinstance(node.value, bool):
                out.append((path, 'boolconst', 0))
            if isinstance(node, ast.Call) and len(node.args) >= 2 and all(isinstance(a, (ast.Name, ast.Attribute, ast.Subscript)) for a in node.args[:2]) \
                    and ast.dump(node.args[0]) != ast.dump(node.args[1]):
                out.append((path, 'argswap', 0))
            if isinstance(node, ast.Attribute) and node.attr in SIB:
                out.append((path, 'sibattr', 0))
            if isinstance(node, ast.Name) and node.id in SIB and isinstance(node.ctx, ast.Load):
                out.append((path, 'sibname', 0))
            if isinstance(node, ast.Slice) and (node.lower or node.upper or node.step):
                out.append((path, 'slice', 0))
            if isinstance(node, ast.If) and not node.orelse and in_fn:
                out.append((path, 'ifdrop', 0))
            if isinstance(node, ast.If) and node.orelse and len(node.orelse) == 1 and isinstance(node.orelse[0], ast.If):
                out.append((path, 'elif2if', 0))
            if isinstance(node, (ast.Assign, ast.AugAssign, ast.Expr)) and in_fn and not (isinstance(node, ast.Assign) and all(isinstance(t, ast.Name) for t in node.targets)):
                out.append((path, 'stmtdrop', 0))
            if isinstance(node, ast.keyword) and node.arg is not None and in_fn:
                out.append((path, 'kwdrop', 0))
        for field, value in ast.iter_fields(node):
            if isinstance(value, list):
                for i, x in enumerate(value):
                    if isinstance(x, ast.AST):
                        walk(x, path + [(field, i)], fn)
            elif isinstance(value, ast.AST):
                walk(value, path + [(field, None)], fn)
    walk(tree, [], False)
    return out


def _get(tree, path):
    node = tree
    for f, i in path:
        node = getattr(node, f)
        if i is not None:
            node = node[i]
    return node


def _set(tree, path, new):
    parent = _get(tree, path[:-1])
    f, i = path[-1]
    if i is None:
        setattr(parent, f, new)
    else:
        getattr(parent, f)[i] = new


def _del(tree, path):
    parent = _get(tree, path[:-1])
    f, i = path[-1]
    lst = getattr(parent, f)
    if len(lst) == 1 and f in ('body', 'orelse', 'finalbody') and isinstance(parent, (ast.FunctionDef, ast.If, ast.For, ast.While, ast.With, ast.Try, ast.ExceptHandler, ast.ClassDef)) and f == 'body':
        lst[i] = ast.Pass()
    else:
        del lst[i]


def mutate(src, path, kind, k):
    """-> (new source, description) or None"""
    tree = ast.parse(src)
    node = _get(tree, path)
    before = ast.unparse(node)[:90]
    line = getattr(node, 'lineno', None)
    if line is None:
        par = _get(tree, path[:-1])
        line = getattr(par, 'lineno', 0)
    if kind == 'cmp':
        node.ops = [CMP[type(node.ops[0])][k]()]
    elif kind == 'bin':
        node.op = BIN[type(node.op)][0]()
    elif kind == 'bool':
        node.op = ast.Or() if isinstance(node.op, ast.And) else ast.And()
    elif kind == 'unary':
        _set(tree, path, node.operand)
    elif kind == 'const':
        v = node.value
        if isinstance(v, int):
            node.value = v + 1 if k == 0 else v - 1
        else:
            node.value = -v if v != 0 else 1.0
    elif kind == 'boolconst':
        node.value = not node.value
    elif kind == 'argswap':
        node.args[0], node.args[1] = node.args[1], node.args[0]
    elif kind == 'sibattr':
        node.attr = SIB[node.attr]
    elif kind == 'sibname':
        node.id = SIB[node.id]
    elif kind == 'slice':
        if node.step is not None:
            node.step = None
        elif node.lower is not None and node.upper is not None:
            node.lower, node.upper = None, node.upper
        elif node.lower is not None:
            node.lower = ast.BinOp(left=node.lower, op=ast.Add(), right=ast.Constant(value=1))
        else:
            node.upper = ast.BinOp(left=node.upper, op=ast.Sub(), right=ast.Constant(value=1))
    elif kind == 'ifdrop':
        par = _get(tree, path[:-1])
        f, i = path[-1]
        getattr(par, f)[i:i + 1] = node.body          # the guard is gone: its body always runs
        ast.fix_missing_locations(tree)
        return ast.unparse(tree), 'L%d ifdrop: guard `%s` removed (body always runs)' % (line, ast.unparse(node.test)[:70])
    elif kind == 'elif2if':
        par = _get(tree, path[:-1])
        f, i = path[-1]
        inner = node.orelse[0]
        node.orelse = []
        getattr(par, f).insert(i + 1, inner)
        ast.fix_missing_locations(tree)
        return ast.unparse(tree), 'L%d elif2if: `elif %s` became `if`' % (line, ast.unparse(inner.test)[:70])
    elif kind == 'stmtdrop':
        _del(tree, path)
        ast.fix_missing_locations(tree)
        return ast.unparse(tree), 'L%d stmtdrop: `%s` removed' % (line, before)
    elif kind == 'kwdrop':
        par = _get(tree, path[:-1])
        f, i = path[-1]
        del getattr(par, f)[i]
        ast.fix_missing_locations(tree)
        return ast.unparse(tree), 'L%d kwdrop: keyword `%s` dropped' % (line, before)
    else:
        return None
    ast.fix_missing_locations(tree)
    try:
        after = ast.unparse(_get(tree, path))[:90] if kind != 'unary' else ast.unparse(_get(tree, path))[:90]
    except Exception:
        after = '?'
    new = ast.unparse(tree)
    if new == ast.unparse(ast.parse(src)):
        return None
    return new, 'L%d %s: `%s` -> `%s`' % (line, kind, before, after)


def generate(out, files, mx, seed):
    base = tempfile.mkdtemp(prefix='mut-base-', dir=SCRATCH)
    try:
        subprocess.check_call('git -C /repo archive HEAD sedfitter | tar -x -C %s' % base, shell=True)
        muts = []
        for f in files:
            src = open(os.path.join(base, f)).read()
            tree = ast.parse(src)
            for path, kind, k in sites(tree):
                muts.append({'file': f, 'path': path, 'kind': kind, 'k': k})
        random.Random(seed).shuffle(muts)
        if mx:
            # keep the mix of kinds and files: round-robin over (file, kind)
            groups = {}
            for m in muts:
                groups.setdefault((m['file'], m['kind']), []).append(m)
            picked = []
            while len(picked) < mx and any(groups.values()):
                for g in list(groups):
                    if groups[g] and len(picked) < mx:
                        picked.append(groups[g].pop())
            muts = picked
        for i, m in enumerate(muts):
            m['id'] = 'M%04d' % i
        json.dump({'rev': subprocess.check_output('git -C /repo rev-parse --short HEAD', shell=True, text=True).strip(), 'mutants': muts}, open(out, 'w'))
        print('%d mutants over %d files' % (len(muts), len(files)))
    finally:
        shutil.rmtree(base, ignore_errors=True)


_BASE = None


def _work(args):
    m, base, props = args
    tmp = tempfile.mkdtemp(prefix='mut-', dir=SCRATCH)
    res = dict(m)
    try:
        shutil.copytree(os.path.join(base, 'sedfitter'), os.path.join(tmp, 'sedfitter'))
        p = os.path.join(tmp, m['file'])
        r = mutate(open(p).read(), [tuple(x) for x in m['path']], m['kind'], m['k'])
        if r is None:
            res['status'] = 'noop'
            return res
        new, desc = r
        res['desc'] = desc
        try:
            compile(new, p, 'exec')
        except SyntaxError:
            res['status'] = 'syntax'
            return res
        open(p, 'w').write(new)
        from sedlint.loader import Repo
        from sedlint.main import run_property, PROPS
        from sedlint import report
        repo = Repo(tmp)
        fired, undec = [], []
        first = ''
        for pid in (props or PROPS):
            try:
                ctx, mod = run_property(pid, repo, 'quick', 0, quiet=True)
            except Exception as ex:
                undec.append(pid)
                continue
            v = [o for o in ctx.obs if o.status == report.VIOL]
            u = [o for o in ctx.obs if o.status == report.UNDEC]
            counts = ctx.counts()
            low = [r_ for r_, mn in ctx.mins.items() if counts.get(r_, 0) < mn]
            if v:
                fired.append(pid)
                first = first or '%s %s %s: %s' % (pid, v[0].rule, v[0].instance[:60], v[0].detail[:100])
            elif u or ctx.errors or low:
                undec.append(pid)
        res['fired'], res['undecided'], res['first'] = fired, undec, first
        res['status'] = 'killed' if fired else ('undecided' if undec else 'silent')
        return res
    except Exception as ex:
        res['status'] = 'error'
        res['error'] = '%s: %s' % (type(ex).__name__, str(ex)[:200])
        return res
    finally:
        shutil.rmtree(tmp, ignore_errors=True)


def run(inp, out, jobs, props):
    d = json.load(open(inp))
    base = tempfile.mkdtemp(prefix='mut-base-', dir=SCRATCH)
    try:
        subprocess.check_call('git -C /repo archive HEAD sedfitter | tar -x -C %s' % base, shell=True)
        with multiprocessing.Pool(jobs, maxtasksperchild=8) as pool:
            results = []
            for i, r in enumerate(pool.imap_unordered(_work, [(m, base, props) for m in d['mutants']])):
                results.append(r)
                if (i + 1) % 50 == 0:
                    print('%d / %d' % (i + 1, len(d['mutants'])), flush=True)
        results.sort(key=lambda r: r['id'])
        json.dump({'rev': d['rev'], 'results': results}, open(out, 'w'), indent=0)
        show(out)
    finally:
        shutil.rmtree(base, ignore_errors=True)


def _suite(args):
    m, cmd = args
    wt = tempfile.mkdtemp(prefix='mut-suite-', dir='/tmp')
    try:
        subprocess.check_call('git -C /repo archive HEAD | tar -x -C %s' % wt, shell=True)
        p = os.path.join(wt, m['file'])
        r = mutate(open(p).read(), [tuple(x) for x in m['path']], m['kind'], m['k'])
        open(p, 'w').write(r[0])
        pr = subprocess.run(cmd, shell=True, cwd=wt, capture_output=True, text=True, timeout=900)
        tail = (pr.stdout.strip().splitlines() or [''])[-1]
        m = dict(m)
        m['suite'] = tail[-80:]
        m['suite_pass'] = ('149 passed' in tail)
        return m
    except Exception as ex:
        m = dict(m); m['suite'] = 'error %s' % ex; m['suite_pass'] = None
        return m
    finally:
        shutil.rmtree(wt, ignore_errors=True)


def suite(inp, out, jobs):
    d = json.load(open(inp))
    cmd = '/venv/bin/python -m pytest -q -p no:cacheprovider --timeout=900 2>&1 | tail -1'          # the pinned suite, as tools/confirm_seed.sh runs it
    surv = [r for r in d['results'] if r['status'] in ('silent', 'undecided')]
    with multiprocessing.Pool(jobs) as pool:
        res = []
        for i, r in enumerate(pool.imap_unordered(_suite, [(m, cmd) for m in surv])):
            res.append(r)
            if (i + 1) % 20 == 0:
                print('%d / %d' % (i + 1, len(surv)), flush=True)
    res.sort(key=lambda r: r['id'])
    json.dump({'rev': d['rev'], 'results': res}, open(out, 'w'), indent=0)
    print('%d survivors: %d pass the suite, %d are killed by it' % (len(res), sum(1 for r in res if r['suite_pass']), sum(1 for r in res if r['suite_pass'] is False)))


def show(inp):
    d = json.load(open(inp))
    rs = d['results']
    import collections
    c = collections.Counter(r['status'] for r in rs)
    print('mutants: %d  %s' % (len(rs), dict(c)))
    byfile = collections.defaultdict(collections.Counter)
    for r in rs:
        byfile[r['file']][r['status']] += 1
    for f in sorted(byfile):
        print('  %-50s %s' % (f, dict(byfile[f])))


if __name__ == '__main__':
    a = sys.argv[1:]
    def opt(name, default=None):
        if name in a:
            i = a.index(name); v = a[i + 1]; del a[i:i + 2]; return v
        return default
    if a[0] == 'generate':
        files = opt('--files'); mx = int(opt('--max', '0')); seed = int(opt('--seed', '1'))
        generate(a[1], files.split(',') if files else files_default(), mx, seed)
    elif a[0] == 'run':
        jobs = int(opt('--jobs', '14')); props = opt('--props')
        run(a[1], a[2], jobs, props.split(',') if props else None)
    elif a[0] == 'suite':
        jobs = int(opt('--jobs', '12'))
        suite(a[1], a[2], jobs)
    elif a[0] == 'show':
        show(a[1])
