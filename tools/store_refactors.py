#!/venv/bin/python
"""usage: store_refactors.py <Cnn> <srcdir> <set>   confirm the three refactors a sub-agent delivered in <srcdir> (patch_R1..3.diff, demo.py, NOTES.md) with
tools/confirm_refactor.sh at the set's base revision and store the confirmed ones under seeded/<set>/<Cnn>/ with a meta.json."""
import sys, os, json, subprocess, shutil
HERE = os.path.dirname(os.path.dirname(os.path.abspath(__file__)))
p, src, rset = sys.argv[1:4]
dst = os.path.join(HERE, 'seeded', rset, p)
rev = open(os.path.join(HERE, 'seeded', rset, 'BASE_REV')).read().strip()
os.makedirs(dst, exist_ok=True)
meta = {'property': p, 'kind': 'behaviour-preserving refactors (the property still holds): the checks must not say VIOLATION', 'base_revision': rev,
        'origin': 'independent sub-agent given only the text of the property and a scratch worktree (nothing from /verif); asked for bold rewrites of the mechanism', 'refactors': {}}
for r in ('R1', 'R2', 'R3'):
    if not os.path.exists(os.path.join(src, 'patch_%s.diff' % r)):
        continue
    out = subprocess.run(['sh', os.path.join(HERE, 'tools', 'confirm_refactor.sh'), p, r, src, rev], capture_output=True, text=True).stdout.strip().splitlines()
    line = out[-1] if out else ''
    ok = 'apply=ok' in line and '149 passed' in line and 'demo_with_refactor_exit=0 demo_without_exit=0' in line
    print(line, '' if ok else '  NOT CONFIRMED')
    if ok:
        shutil.copy(os.path.join(src, 'patch_%s.diff' % r), dst)
        meta['refactors'][r] = {'patch': 'patch_%s.diff' % r, 'confirmation': line, 'checks_reporting_violation': [], 'checks_left_undecided': [], 'undecided_detail': []}
for f in ('demo.py', 'NOTES.md'):
    if os.path.exists(os.path.join(src, f)):
        shutil.copy(os.path.join(src, f), dst)
json.dump(meta, open(os.path.join(dst, 'meta.json'), 'w'), indent=1)
