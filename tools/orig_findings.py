#!/venv/bin/python
"""Run every check on the pinned (pre-fix) tree and list the violations it reports there.
Used once to fill known_findings.json with `fixed` entries and as a regression: every fix,
if reverted, is detected.  usage: orig_findings.py [rev]   (exports the revision to a temp dir)"""
import json, os, subprocess, sys, tempfile, shutil
HERE = os.path.dirname(os.path.dirname(os.path.abspath(__file__)))
sys.path.insert(0, HERE)
rev = sys.argv[1] if len(sys.argv) > 1 else 'bb141e4'
tmp = tempfile.mkdtemp(prefix='sedlint-orig-', dir='/root/scratch' if os.path.isdir('/root/scratch') else None)
try:
    subprocess.check_call('git -C /repo archive %s sedfitter | tar -x -C %s' % (rev, tmp), shell=True)
    from sedlint.loader import Repo
    from sedlint.main import run_property, PROPS
    from sedlint import report
    repo = Repo(tmp)
    out = []
    for pid in PROPS:
        ctx, mod = run_property(pid, repo, 'quick', 0, quiet=True)
        for o in ctx.obs:
            if o.status == report.VIOL:
                out.append({'property': pid, 'rule': o.rule, 'key': o.key(), 'where': o.where, 'detail': o.detail[:200]})
        print(pid, len([o for o in ctx.obs if o.status == report.VIOL]), 'violations', len([o for o in ctx.obs if o.status == report.UNDEC]), 'undecided', ctx.errors[:2], file=sys.stderr)
    json.dump(out, sys.stdout, indent=1)
finally:
    shutil.rmtree(tmp, ignore_errors=True)
