#!/bin/sh
# usage: confirm_seed.sh <Cnn> <A|B> [srcdir] : confirm one seeded change in a fresh scratch worktree of /repo HEAD:
#   patch applies, the repository's suite passes with it, the demo fails with it and passes without it.
#   srcdir defaults to /tmp/wt-<Cnn>/_seed (round 1); round 2 used /tmp/w2-<Cnn>/_seed
P=$1; X=$2
SRC=${3:-/tmp/wt-$P/_seed}
WT=/tmp/cs-$P-$X
git -C /repo worktree add -q --detach $WT HEAD || exit 9
mkdir -p $WT/_seed; cp $SRC/demo_$X.py $WT/_seed/; cp $SRC/patch_$X.diff $WT/_seed/
cd $WT
R_APPLY=fail; git apply _seed/patch_$X.diff && R_APPLY=ok
R_SUITE=$(/venv/bin/python -m pytest -q -p no:cacheprovider --timeout=900 2>&1 | tail -1)
timeout 1200 /venv/bin/python _seed/demo_$X.py > _seed/demo_with.log 2>&1; R_WITH=$?
git checkout -q -- sedfitter
timeout 1200 /venv/bin/python _seed/demo_$X.py > _seed/demo_without.log 2>&1; R_WITHOUT=$?
echo "$P $X apply=$R_APPLY suite=[$R_SUITE] demo_with_change_exit=$R_WITH demo_without_change_exit=$R_WITHOUT"
cd /; git -C /repo worktree remove --force $WT
