#!/venv/bin/python
"""Run every property check against a scratch export of /repo HEAD with one patch applied.
usage: seedcheck.py <patch.diff> [C01 C02 ...]      (nothing in /repo is touched)"""
import os, subprocess, sys, tempfile, shutil
HERE = os.path.dirname(os.path.dirname(os.path.abspath(__file__)))
sys.path.insert(0, HERE)
patch = os.path.abspath(sys.argv[1])
props = sys.argv[2:]
tmp = tempfile.mkdtemp(prefix='sedlint-seed-', dir='/root/scratch' if os.path.isdir('/root/scratch') else None)
try:
    subprocess.check_call('git -C /repo archive %s sedfitter | tar -x -C %s' % (os.environ.get('SEEDCHECK_REV', 'HEAD'), tmp), shell=True)
    r = subprocess.run(['git', 'apply', '--whitespace=nowarn', patch], cwd=tmp, capture_output=True, text=True)
    if r.returncode != 0:
        r = subprocess.run(['patch', '-p1', '-i', patch], cwd=tmp, capture_output=True, text=True)
        if r.returncode != 0:
            print('PATCH-DOES-NOT-APPLY', r.stdout[-300:], r.stderr[-300:])
            sys.exit(3)
    from sedlint.loader import Repo
    from sedlint.main import run_property, PROPS
    from sedlint import report
    repo = Repo(tmp)
    fired = []
    for pid in (props or PROPS):
        ctx, mod = run_property(pid, repo, 'quick', 0, quiet=True)
        v = [o for o in ctx.obs if o.status == report.VIOL]
        u = [o for o in ctx.obs if o.status == report.UNDEC]
        counts = ctx.counts()
        low = [r_ for r_, mn in ctx.mins.items() if counts.get(r_, 0) < mn]
        if v:
            fired.append(pid)
            print('%s VIOLATION  %s' % (pid, ' || '.join('%s %s: %s' % (o.rule, o.instance, o.detail[:110]) for o in v[:3])))
        elif u or ctx.errors or low:
            print('%s UNDECIDED  %s' % (pid, ' || '.join(['%s %s: %s' % (o.rule, o.instance, o.detail[:110]) for o in u[:2]] + ctx.errors[:2] + ['low:%s' % low if low else ''])))
    print('FIRED: %s' % (' '.join(fired) or 'none'))
finally:
    shutil.rmtree(tmp, ignore_errors=True)
