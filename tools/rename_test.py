#!/venv/bin/python
"""Robustness probe: rename every function-local variable of the package (a behaviour-preserving rewrite
by construction), analyse the result in memory and report each property's verdict.
usage: rename_test.py [C01 ...]"""
import ast, os, sys, builtins, warnings
HERE = os.path.dirname(os.path.dirname(os.path.abspath(__file__)))
sys.path.insert(0, HERE)
from sedlint.loader import Repo
from sedlint.main import run_property, PROPS
from sedlint import report


def rename_function_locals(fn, taken):
    params = {a.arg for a in fn.args.args + fn.args.kwonlyargs + fn.args.posonlyargs}
    if fn.args.vararg: params.add(fn.args.vararg.arg)
    if fn.args.kwarg: params.add(fn.args.kwarg.arg)
    stored = set()
    nested = set()
    for n in ast.walk(fn):
        if isinstance(n, (ast.FunctionDef, ast.Lambda, ast.ClassDef)) and n is not fn:
            for m in ast.walk(n):
                if isinstance(m, ast.Name):
                    nested.add(m.id)
        if isinstance(n, ast.Name) and isinstance(n.ctx, ast.Store):
            stored.add(n.id)
        if isinstance(n, (ast.Global, ast.Nonlocal)):
            nested.update(n.names)
        if isinstance(n, (ast.Import, ast.ImportFrom)):
            for a in n.names:
                nested.add((a.asname or a.name).split('.')[0])
    # comprehension targets are also locals
    locs = {x for x in stored if x not in params and x not in nested and x not in taken and not hasattr(builtins, x) and x != 'self' and x != 'cls'}
    mp = {x: x + '_rn' for x in locs}
    for n in ast.walk(fn):
        if isinstance(n, ast.Name) and n.id in mp:
            n.id = mp[n.id]
    return len(mp)


def main():
    warnings.simplefilter('ignore')
    repo = Repo()
    overlay = {}
    total = 0
    for rel, text in repo.sources.items():
        tree = ast.parse(text)
        taken = {n.id for n in ast.walk(tree) if isinstance(n, ast.Name) and False}
        for n in ast.walk(tree):
            if isinstance(n, ast.FunctionDef):
                total += rename_function_locals(n, taken)
        overlay[rel] = ast.unparse(tree)
    r2 = Repo(sources=repo.sources, overlay=overlay)
    print('renamed %d locals in %d modules' % (total, len(overlay)))
    bad = 0
    for pid in (sys.argv[1:] or PROPS):
        ctx, mod = run_property(pid, r2, 'quick', 0, quiet=True)
        v = [o for o in ctx.obs if o.status == report.VIOL]
        u = [o for o in ctx.obs if o.status == report.UNDEC]
        counts = ctx.counts()
        low = [r_ for r_, mn in ctx.mins.items() if counts.get(r_, 0) < mn]
        verdict = 'VIOLATION' if v else ('UNDECIDED' if (u or ctx.errors or low) else 'OK')
        if verdict != 'OK':
            bad += 1
        print(pid, verdict, ' || '.join(['%s %s: %s' % (o.rule, o.instance, o.detail[:90]) for o in (v or u)[:3]] + ctx.errors[:2]))
    return bad


if __name__ == '__main__':
    main()
