#!/bin/sh
# usage: store_seed.sh <Cnn> <A|B> <srcdir> <letter> <round> : confirm one seeded change delivered by a sub-agent (tools/confirm_seed.sh) and, when it is confirmed
#   (applies, suite passes, demo fails with it and passes without), store it as seeded/<Cnn>-<letter>/ (patch.diff, demo.py, NOTES.md of the agent, meta.json).
P=$1; X=$2; SRC=$3; L=$4; R=$5
HERE=$(dirname $(dirname $(readlink -f $0)))
LINE=$(sh $HERE/tools/confirm_seed.sh $P $X $SRC 2>&1 | tail -1)
echo "$LINE"
case "$LINE" in
  *"apply=ok"*"149 passed"*"demo_with_change_exit=1 demo_without_change_exit=0"*) ;;
  *"apply=ok"*"149 passed"*"demo_without_change_exit=0"*) case "$LINE" in *"demo_with_change_exit=0"*) echo "NOT CONFIRMED"; exit 1;; esac ;;
  *) echo "NOT CONFIRMED"; exit 1;;
esac
D=$HERE/seeded/$P-$L
mkdir -p $D
cp $SRC/patch_$X.diff $D/patch.diff; cp $SRC/demo_$X.py $D/demo.py
/venv/bin/python - "$P" "$L" "$R" "$LINE" "$D" "$SRC" "$X" <<'PY'
import sys, json, re, os
p, l, r, line, d, src, x = sys.argv[1:]
files = sorted(set(re.findall(r'^\+\+\+ b/(\S+)', open(os.path.join(d, 'patch.diff')).read(), re.M)))
notes = open(os.path.join(src, 'NOTES.md')).read() if os.path.exists(os.path.join(src, 'NOTES.md')) else ''
# the agent's own description of this change: the NOTES.md section that mentions it first
m = re.search(r'(?is)(change\s+%s\b.*?)(?=\n#+\s*change\s+[AB]\b|\Z)' % x, notes)
needs = re.sub(r'\s+', ' ', (m.group(1) if m else notes)[:600]).strip()
meta = {'id': '%s-%s' % (p, l), 'round': int(r), 'breaks_property': p,
        'origin': 'independent sub-agent given only the text of the property and a scratch worktree (nothing from /verif); round %s, asked for changes that are hard to notice in the diff' % r,
        'files_changed': files, 'needs': needs[:400],
        'what_i_ran': ['tools/confirm_seed.sh (fresh worktree of /repo HEAD: git apply, the pinned suite, the demo with and without the change)', 'tools/seed_matrix.py (all 20 checks on a scratch export of HEAD + patch)'],
        'confirmation': line, 'demo_usage': 'copy demo.py into <worktree>/_seed/ and run it from the worktree root: exit 0 = property holds, non-zero = violated',
        'checks_that_report_a_violation': [], 'checks_left_undecided': [], 'first_report': {}}
json.dump(meta, open(os.path.join(d, 'meta.json'), 'w'), indent=1)
PY
echo "stored $D"
