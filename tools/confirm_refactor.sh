#!/bin/sh
# usage: confirm_refactor.sh <Cnn> <R1|R2|R3> <srcdir> [base-rev] : confirm one behaviour-preserving refactor in a fresh scratch worktree:
#   the patch applies to the base revision, the repository's suite passes with it, and the demo (property still holds) passes with it and without it.
P=$1; X=$2; SRC=$3; REV=${4:-HEAD}
WT=/tmp/cr-$P-$X
git -C /repo worktree add -q --detach $WT $REV || exit 9
mkdir -p $WT/_seed; cp $SRC/demo.py $WT/_seed/; cp $SRC/patch_$X.diff $WT/_seed/
cd $WT
R_APPLY=fail; git apply _seed/patch_$X.diff && R_APPLY=ok
R_SUITE=$(/venv/bin/python -m pytest -q -p no:cacheprovider --timeout=900 2>&1 | tail -1)
timeout 1800 /venv/bin/python _seed/demo.py > _seed/demo_with.log 2>&1; R_WITH=$?
git checkout -q -- sedfitter
timeout 1800 /venv/bin/python _seed/demo.py > _seed/demo_without.log 2>&1; R_WITHOUT=$?
echo "$P $X base=$REV apply=$R_APPLY suite=[$R_SUITE] demo_with_refactor_exit=$R_WITH demo_without_exit=$R_WITHOUT"
cd /; git -C /repo worktree remove --force $WT
