#!/venv/bin/python
"""Regenerate /verif/MANIFEST.json from the property modules that exist."""
import importlib
import json
import os
import sys

HERE = os.path.dirname(os.path.dirname(os.path.abspath(__file__)))
sys.path.insert(0, HERE)

props = [json.loads(l) for l in open(os.path.join(HERE, 'properties.jsonl'))]
checks, na = [], []
for p in props:
    pid = p['id']
    path = os.path.join(HERE, 'sedlint', 'props', pid.lower() + '.py')
    if not os.path.exists(path):
        na.append({'property_id': pid, 'reason': 'static check not built yet in this session (see DESIGN.md section 4 for the planned clauses)'})
        continue
    mod = importlib.import_module('sedlint.props.' + pid.lower())
    checks.append({
        'property_id': pid,
        'quick_cmd': './check %s --tier quick' % pid,
        'thorough_cmd': './check %s --tier thorough' % pid,
        'evidence_file': 'evidence/%s.json' % pid,
        'replay_cmd_template': './check %s --replay {path}' % pid,
        'engine': 'sedlint',
        'level_claimed': {
            'category': 'other',
            'text': getattr(mod, 'LEVEL_TEXT', None) or (
                'Static decision, for every path/input, of the structural clauses of %s named in the evidence '
                '(necessary conditions of the behaviour); the numerical/library clauses listed as not decided are '
                'not claimed.' % pid),
            'design_ref': 'DESIGN.md section 4, %s' % pid,
        },
        'level_note': getattr(mod, 'LEVEL_NOTE', None) or ('Trusted: python ast of /repo working tree; ' + '; '.join(getattr(mod, 'ASSUMPTIONS', []))),
        'technique': getattr(mod, 'TECHNIQUE', 'static analysis: repository-specific AST rules (control-flow paths, coherence sets, writer/reader agreement)'),
    })
man = {
    'version': 1,
    'setup_cmd': 'true',
    'hooks': {
        'guard': 'SEDFITTER_VERIF',
        'enable': 'none needed: the checks are static and read /repo\'s working tree; no instrumentation exists in /repo',
        'baseline_off_cmd': 'cd /repo && /venv/bin/python -m pytest -ra -q -p no:cacheprovider --timeout=900 --continue-on-collection-errors',
        'source_commits': [],
        'add_only': True,
    },
    'engines': [{
        'name': 'sedlint',
        'path': 'sedlint/',
        'serves_properties': [c['property_id'] for c in checks],
        'kind_free_text': 'repository-specific static analyser (python ast): resolver, call graph, control-flow path walk, '
                          'polynomial normal form over index-typed array expressions, effect/ownership and external-API rules',
    }],
    'checks': checks,
    'not_applicable': na,
    'notes': 'All checks are static (no code under /repo/sedfitter is imported or executed). Exit 0 = all obligations hold; '
             'exit 1 + VIOLATION line = a rule instance is definitely broken; exit 2 + ANALYSIS-ERROR = anchor vanished or undecidable '
             '(nothing claimed). fix: commits in /repo are listed in known_findings.json as fixed entries.',
}
with open(os.path.join(HERE, 'MANIFEST.json'), 'w') as fh:
    json.dump(man, fh, indent=1)
print('checks: %s' % ' '.join(c['property_id'] for c in checks))
print('not_applicable: %s' % ' '.join(x['property_id'] for x in na))
