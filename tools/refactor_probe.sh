#!/bin/sh
# Run every stored behaviour-preserving refactor (seeded/refactors*/C??/patch_R?.diff) through all 20 checks at the base revision of its round
# (seeded/refactors*/BASE_REV).  Prints the VIOLATION (false alarm: a bug of the checks) and UNDECIDED lines; scratch exports are made and removed by tools/seedcheck.py.
# usage: refactor_probe.sh [outdir] [set ...]      sets default to every seeded/refactors* directory
OUT=${1:-/root/scratch/refactor-probe}
shift 2>/dev/null
SETS=${@:-$(ls -d /verif/seeded/refactors*)}
mkdir -p $OUT
for S in $SETS; do
  REV=$(cat $S/BASE_REV); T=$(basename $S)
  ls $S/C*/patch_R*.diff | xargs -P 14 -I{} sh -c 'f={}; p=$(echo $f | sed "s|.*/\(C[0-9]*\)/patch_\(R[0-9]\).diff|\1-\2|"); SEEDCHECK_REV='$REV' timeout 1500 /venv/bin/python /verif/tools/seedcheck.py $f > '$OUT'/'$T'-$p.txt 2>&1'
  for f in $OUT/$T-C*.txt; do t=$(basename $f .txt | sed "s/^$T-//"); grep "VIOLATION\|UNDECIDED\|PATCH\|Traceback" $f | { if [ "$REV" = c27de59 ]; then grep -v "UNIT-2 ConvolvedFluxes.interpolate clamp bound"; else cat; fi; } | sed "s/^/$T $t: /" | cut -c1-340; done
done
