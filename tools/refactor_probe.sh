#!/bin/sh
# Run every stored behaviour-preserving refactor (seeded/refactors/C??/patch_R?.diff) through all 20 checks at its base revision.
# Prints the VIOLATION (false alarm: a bug of the checks) and UNDECIDED lines; scratch exports are made and removed by tools/seedcheck.py.
OUT=${1:-/root/scratch/refactor-probe}
mkdir -p $OUT
ls /verif/seeded/refactors/C*/patch_R*.diff | xargs -P 12 -I{} sh -c 'f={}; p=$(echo $f | sed "s|.*/\(C[0-9]*\)/patch_\(R[0-9]\).diff|\1-\2|"); SEEDCHECK_REV=c27de59 timeout 1500 /venv/bin/python /verif/tools/seedcheck.py $f > '$OUT'/all-$p.txt 2>&1'
for f in $OUT/all-C*.txt; do t=$(basename $f .txt | sed s/all-//); grep "VIOLATION\|UNDECIDED\|PATCH\|Traceback" $f | grep -v "UNIT-2 ConvolvedFluxes.interpolate clamp bound" | sed "s/^/$t: /" | cut -c1-330; done
